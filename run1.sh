#!/bin/bash
# usage: run1.sh <harnessdir> <repo-rel-pkgdir> <entry> [extra engine flags]
H=$1; P=$2; E=$3; shift 3
OV=""
for f in /verif/harness/$H/zz_*.go; do OV="$OV -overlay /repo/$P/$(basename $f)=$f"; done
exec /verif/bin/gosymex -repo /repo -overlay /repo/internal/verifrt/verifrt.go=/verif/rt/verifrt_sym.go $OV -pkg github.com/anyproto/any-sync/$P -entry $E "$@"
