#!/bin/bash
# usage: seedtest2.sh <seed-id> <property> <worktree> <pkg-of-demo> [check args...]
# like seedtest.sh, but runs ./check against the seeded worktree itself (VERIF_REPO), so /repo is not touched
# and other checks can run at the same time.
ID=$1; PROP=$2; WT=$3; PKG=$4; shift 4
export GOFLAGS=-mod=mod GOPROXY=off
D=/verif/seeded/$ID; mkdir -p $D
cp $WT/seeded.patch $D/patch.diff
DEMO=$(cd $WT && git status --porcelain | grep zz_seeded_demo_test.go | awk '{print $2}' | head -1)
cp $WT/$DEMO $D/zz_seeded_demo_test.go
cd $WT
echo "--- demo WITH change (expect FAIL)"; go test -count=1 -run 'Seeded' ./$PKG/ 2>&1 | tail -2
git apply -R seeded.patch
echo "--- demo WITHOUT change (expect ok)"; go test -count=1 -run 'Seeded' ./$PKG/ 2>&1 | tail -1
git apply seeded.patch
mv $DEMO /tmp/demo_$ID.go
echo "--- existing tests of the package WITH change"; go test -count=1 ./$PKG/ 2>&1 | tail -1
cd /verif
echo "--- /verif check $PROP on the seeded worktree"
VERIF_REPO=$WT ./check $PROP "$@" 2>&1 | grep -v "^  \|^ok\|^PASS\|^---\|^=== RUN\|^20\|^$" | tail -6
mv /tmp/demo_$ID.go $WT/$DEMO
