// Package verifrt is the intrinsic API of the gosymex engine (symbolic build).
// Every function here is body-less: the engine intercepts the calls.
// The native twin (verifrt_native.go) implements the same API by reading a
// solver model, and is used for replays against the real build.
package verifrt

func Bool() bool
func U8() uint8
func U16() uint16
func U32() uint32
func U64() uint64
func I32() int32
func I64() int64
func Int() int
func IntRange(lo, hi int) int
func Bytes(n int) []byte
func String(n int) string
func Atoms(n, l int) []string
func Choose(n int) int
func Assume(b bool)
func Assert(b bool, id string)
func Reach(id string)
func Observe(tag string, v any)
func Concretize(x int) int
func ConcretizeString(s string) string
func Param(name string, def int) int
func Replace(qualified string, fn any)
func UF64(name string, args ...any) uint64
func UF8(name string, args ...any) uint8
func UFBool(name string, args ...any) bool
func UFBytes(name string, n int, args ...any) []byte
func Unsupported(msg string)
func Steps() int

// AnyOf / AllOf: non-short-circuit disjunction / conjunction (one term, no fork).
func AnyOf(bs ...bool) bool
func AllOf(bs ...bool) bool

// Ite: value-level conditional without a branch.
func IteInt(c bool, a, b int) int
func Debug(tag string, v any)

// Stub*: draws made inside engine-only stubs (functions installed with
// Replace, and methods of the fake values they return).  They are part of the
// solver model but are skipped by native replays, where the real code runs.
func StubBool() bool
func StubU64() uint64
func StubBytes(n int) []byte

// Sched: a scheduling point (another goroutine may run here).  Settle: returns once no other goroutine can
// run any more - each is finished or blocked for good.  (Engine flag -sched; natively Gosched / a short sleep.)
func Sched()
func Settle()

// Atomic runs f as one step of the harness's own bookkeeping (no scheduling point inside; natively under one
// process-wide lock).
func Atomic(f func())

// Bounded runs f; natively it fails the obligation "no-alloc" if f allocated more than maxBytes in total (the
// engine reports a make() whose size the input controls beyond its allocation bound as outcome "alloc").
func Bounded(maxBytes int, f func())
