// Package verifrt, native twin: the same API as the symbolic build, driven by a
// solver model (JSON file named by $VERIF_MODEL).  Used to replay
// counterexamples and to validate the engine against the real compiler.
package verifrt

import (
	"encoding/hex"
	"encoding/json"
	"fmt"
	"math/rand"
	"os"
	"reflect"
	"runtime"
	"strings"
	"sync"
	"time"
)

type draw struct {
	K  string   `json:"k"`
	W  int      `json:"w"`
	V  uint64   `json:"v"`
	Vs []uint64 `json:"vs"`
	S  bool     `json:"s"` // drawn inside an engine-only stub (rt.Replace): skipped natively
}

type ufEntry struct {
	Name string `json:"name"`
	Key  string `json:"key"`
	Val  uint64 `json:"val"`
}

type model struct {
	Params map[string]int `json:"params"`
	Draws  []draw         `json:"draws"`
	UFs    []ufEntry      `json:"ufs"`
}

type assumeFailed struct{}
type divergence struct{ msg string }

var (
	mdl      model
	pos      int
	ufTable  map[string]uint64
	failed   []string
	observed []string
	hooks    = map[string]any{}
	loaded   bool
	ufMisses int
)

func load() {
	if loaded {
		return
	}
	loaded = true
	ufTable = map[string]uint64{}
	p := os.Getenv("VERIF_MODEL")
	if p == "" {
		return
	}
	b, err := os.ReadFile(p)
	if err != nil {
		panic(err)
	}
	if err := json.Unmarshal(b, &mdl); err != nil {
		panic(err)
	}
	for _, u := range mdl.UFs {
		ufTable[u.Name+"#"+u.Key] = u.Val
	}
}

var drawMu sync.Mutex

// lenient: harnesses whose goroutines draw values concurrently (engine flag -sched) consume the model's draws in
// whatever order the Go scheduler produces; a draw the model does not have is the zero value.
var lenient = os.Getenv("VERIF_LENIENT") != ""

func next(kind string) draw {
	load()
	drawMu.Lock()
	defer drawMu.Unlock()
	for pos < len(mdl.Draws) && mdl.Draws[pos].S {
		pos++
	}
	if pos >= len(mdl.Draws) {
		if lenient {
			return draw{K: kind}
		}
		panic(divergence{fmt.Sprintf("model exhausted at draw %d (want %s)", pos, kind)})
	}
	d := mdl.Draws[pos]
	if d.K != kind {
		if lenient {
			return draw{K: kind}
		}
		pos++
		panic(divergence{fmt.Sprintf("draw %d: model has %q, harness wants %q", pos-1, d.K, kind)})
	}
	pos++
	return d
}

func Bool() bool    { return next("bool").V != 0 }
func U8() uint8     { return uint8(next("u8").V) }
func U16() uint16   { return uint16(next("u16").V) }
func U32() uint32   { return uint32(next("u32").V) }
func U64() uint64   { return next("u64").V }
func I32() int32    { return int32(next("i32").V) }
func I64() int64    { return int64(next("i64").V) }
func Int() int      { return int(int64(next("int").V)) }
func Choose(n int) int { return int(next("choose").V) }

func IntRange(lo, hi int) int {
	v := int(int64(next("int").V))
	Assume(lo <= v && v <= hi)
	return v
}

func Bytes(n int) []byte {
	d := next("bytes")
	if len(d.Vs) != n {
		panic(divergence{fmt.Sprintf("bytes draw length %d, harness wants %d", len(d.Vs), n)})
	}
	b := make([]byte, n)
	for i := range b {
		b[i] = byte(d.Vs[i])
	}
	return b
}

func String(n int) string { return string(Bytes(n)) }

func Atoms(n, l int) []string {
	out := make([]string, n)
	for i := range out {
		out[i] = string(Bytes(l))
	}
	for i := 0; i < n; i++ {
		for j := i + 1; j < n; j++ {
			Assume(out[i] != out[j])
		}
	}
	return out
}

func Assume(b bool) {
	if !b {
		panic(assumeFailed{})
	}
}

func Assert(b bool, id string) {
	if !b {
		failed = append(failed, id)
		// the symbolic run continues under the asserted condition; natively the
		// first failure is the result
		panic(assertStop{id})
	}
}

type assertStop struct{ id string }

// an assertion that fails in a goroutine other than the test's own ends the process: the runtime then prints this text
func (a assertStop) Error() string { return "VERIF-ASSERT-FAILED:" + a.id + ":" }

func Reach(id string) {}

func Observe(tag string, v any) { observed = append(observed, fmt.Sprintf("%s=%v", tag, v)) }

func Concretize(x int) int                { return x }
func ConcretizeString(s string) string    { return s }
func Unsupported(msg string)              { panic(divergence{"harness: unsupported natively: " + msg}) }
func Steps() int                          { return 0 }
func Replace(qualified string, fn any)    { hooks[qualified] = fn }
func Hook(qualified string) any           { return hooks[qualified] }

func Param(name string, def int) int {
	load()
	if v, ok := mdl.Params[name]; ok {
		return v
	}
	return def
}

func keyArg(sb *strings.Builder, a any) {
	switch v := a.(type) {
	case nil:
		sb.WriteString("nil")
	case bool:
		if v {
			sb.WriteString("true")
		} else {
			sb.WriteString("false")
		}
	case string:
		sb.WriteString("x" + hex.EncodeToString([]byte(v)))
	case []byte:
		sb.WriteString("x" + hex.EncodeToString(v))
	case int:
		fmt.Fprintf(sb, "%d", uint64(v))
	case int64:
		fmt.Fprintf(sb, "%d", uint64(v))
	case int32:
		fmt.Fprintf(sb, "%d", uint32(v))
	case int16:
		fmt.Fprintf(sb, "%d", uint16(v))
	case int8:
		fmt.Fprintf(sb, "%d", uint8(v))
	case uint, uint64, uint32, uint16, uint8, uintptr:
		fmt.Fprintf(sb, "%d", v)
	default:
		rv := reflect.ValueOf(a)
		switch rv.Kind() {
		case reflect.Int, reflect.Int64:
			fmt.Fprintf(sb, "%d", uint64(rv.Int()))
		case reflect.Int32:
			fmt.Fprintf(sb, "%d", uint32(rv.Int()))
		case reflect.Int16:
			fmt.Fprintf(sb, "%d", uint16(rv.Int()))
		case reflect.Int8:
			fmt.Fprintf(sb, "%d", uint8(rv.Int()))
		case reflect.Uint, reflect.Uint64, reflect.Uint32, reflect.Uint16, reflect.Uint8:
			fmt.Fprintf(sb, "%d", rv.Uint())
		case reflect.Bool:
			fmt.Fprintf(sb, "%v", rv.Bool())
		case reflect.String:
			sb.WriteString("x" + hex.EncodeToString([]byte(rv.String())))
		case reflect.Slice, reflect.Array:
			if rv.Type().Elem().Kind() == reflect.Uint8 {
				b := make([]byte, rv.Len())
				for i := range b {
					b[i] = byte(rv.Index(i).Uint())
				}
				sb.WriteString("x" + hex.EncodeToString(b))
			} else {
				sb.WriteString("[")
				for i := 0; i < rv.Len(); i++ {
					if i > 0 {
						sb.WriteByte(',')
					}
					keyArg(sb, rv.Index(i).Interface())
				}
				sb.WriteString("]")
			}
		default:
			sb.WriteString("?")
		}
	}
}

func ufLookup(name string, args []any) uint64 {
	load()
	var sb strings.Builder
	for i, a := range args {
		if i > 0 {
			sb.WriteByte('|')
		}
		keyArg(&sb, a)
	}
	v, ok := ufTable[name+"#"+sb.String()]
	if !ok {
		ufMisses++
	}
	return v
}

func UF64(name string, args ...any) uint64 { return ufLookup(name, args) }
func UF8(name string, args ...any) uint8   { return uint8(ufLookup(name, args)) }
func UFBool(name string, args ...any) bool { return ufLookup(name, args) != 0 }
func UFBytes(name string, n int, args ...any) []byte {
	b := make([]byte, n)
	for i := range b {
		b[i] = byte(ufLookup(fmt.Sprintf("%s_b%d", name, i), args))
	}
	return b
}

// Replay runs a harness under the loaded model and prints the verdict line
// the driver parses.
func Replay(f func()) {
	load()
	drawMu.Lock()
	pos = 0 // a test binary may run the replay several times (-count)
	drawMu.Unlock()
	defer func() {
		r := recover()
		for _, o := range observed {
			fmt.Println("VERIF-OBSERVE:", o)
		}
		if ufMisses > 0 {
			fmt.Println("VERIF-NOTE: uninterpreted-function applications not in the model:", ufMisses)
		}
		switch r := r.(type) {
		case nil:
			fmt.Println("VERIF-RESULT: ok")
		case assertStop:
			fmt.Println("VERIF-RESULT: assert-failed:" + r.id)
		case assumeFailed:
			fmt.Println("VERIF-RESULT: assume-failed")
		case divergence:
			fmt.Println("VERIF-RESULT: divergence:" + r.msg)
		default:
			fmt.Printf("VERIF-RESULT: panic:%v\n", r)
		}
	}()
	f()
}

func AnyOf(bs ...bool) bool {
	for _, b := range bs {
		if b {
			return true
		}
	}
	return false
}

func AllOf(bs ...bool) bool {
	for _, b := range bs {
		if !b {
			return false
		}
	}
	return true
}

func IteInt(c bool, a, b int) int {
	if c {
		return a
	}
	return b
}
func Debug(tag string, v any) {}

// Stub draws are consumed natively only by stubs that run natively too
// (functions of /repo hooked through generated overlays); stubs of third-party
// functions are engine-only and their draws are skipped by next().
func nextStub(kind string) draw {
	load()
	if pos >= len(mdl.Draws) {
		panic(divergence{"model exhausted at a stub draw"})
	}
	d := mdl.Draws[pos]
	if !d.S || d.K != kind {
		panic(divergence{fmt.Sprintf("draw %d: stub wants %q, model has %q (stub=%v)", pos, kind, d.K, d.S)})
	}
	pos++
	return d
}

func StubBool() bool  { return nextStub("bool").V != 0 }
func StubU64() uint64 { return nextStub("u64").V }
func StubBytes(n int) []byte {
	d := nextStub("bytes")
	b := make([]byte, len(d.Vs))
	for i := range b {
		b[i] = byte(d.Vs[i])
	}
	return b
}

// Sched / Settle natively: the Go scheduler decides; Settle waits long enough for the short harness goroutines
// to finish or block.
func Sched() {
	runtime.Gosched()
	time.Sleep(time.Duration(rand.Intn(4)) * 300 * time.Microsecond)
}

func Settle() { time.Sleep(50 * time.Millisecond) }

var atomicMu sync.Mutex

func Atomic(f func()) {
	atomicMu.Lock()
	defer atomicMu.Unlock()
	f()
}

func Bounded(maxBytes int, f func()) {
	var before, after runtime.MemStats
	runtime.ReadMemStats(&before)
	f()
	runtime.ReadMemStats(&after)
	Assert(after.TotalAlloc-before.TotalAlloc <= uint64(maxBytes), "no-alloc")
}
