//go:build verif

package crypto

import (
	rt "github.com/anyproto/any-sync/internal/verifrt"
)

// VerifC05Derive: the per-tree key derivation itself (real SLIP-21 / HMAC-SHA512, executed concretely from the
// standard library's pure Go code): keys derived one after the other by the same deriver are independent values -
// a later derivation does not rewrite an earlier key - they differ for different seeds, and the reusable deriver
// agrees with the one-shot DeriveSymmetricKey.
func VerifC05Derive() {
	path := "m/SLIP-0021/anysync/tree/tree1"
	d := NewKeyDeriver(path)
	n := 2 + rt.Choose(2)
	var keys []SymKey
	var raws [][]byte
	for i := 0; i < n; i++ {
		seed := make([]byte, 32)
		for j := range seed {
			seed[j] = byte(i*31 + j)
		}
		k, err := d.DeriveKey(seed)
		rt.Assert(err == nil, "derivation-succeeds")
		raw, _ := k.Raw()
		keys = append(keys, k)
		raws = append(raws, append([]byte{}, raw...))
		ref, err := DeriveSymmetricKey(seed, path)
		rt.Assert(err == nil, "one-shot-derivation-succeeds")
		refRaw, _ := ref.Raw()
		rt.Assert(string(refRaw) == string(raw), "deriver-agrees-with-one-shot-derivation")
	}
	for i := range keys {
		raw, _ := keys[i].Raw()
		rt.Assert(string(raw) == string(raws[i]), "an-earlier-key-is-not-rewritten-by-a-later-derivation")
		for j := i + 1; j < len(keys); j++ {
			rt.Assert(string(raws[i]) != string(raws[j]), "different-seeds-give-different-keys")
		}
	}
	rt.Reach("derived")
}
