//go:build verif

package streampool

import (
	"context"

	"storj.io/drpc"

	rt "github.com/anyproto/any-sync/internal/verifrt"
	"github.com/anyproto/any-sync/net/peer"
)

type vC19Stream struct {
	ctx    context.Context
	closed int
	sent   int
}

func (s *vC19Stream) Context() context.Context                     { return s.ctx }
func (s *vC19Stream) MsgSend(msg drpc.Message, enc drpc.Encoding) error { s.sent++; return nil }
func (s *vC19Stream) MsgRecv(msg drpc.Message, enc drpc.Encoding) error { return nil }
func (s *vC19Stream) CloseSend() error                              { return nil }
func (s *vC19Stream) Close() error                                  { s.closed++; return nil }

type vC19Msg struct{ n int }

func vC19Count(l []uint32, id uint32) int {
	n := 0
	for _, e := range l {
		if e == id {
			n++
		}
	}
	return n
}

func vC19CountS(l []string, s string) int {
	n := 0
	for _, e := range l {
		if e == s {
			n++
		}
	}
	return n
}

// the three indexes agree
func vC19Consistent(p *streamPool, tags []string) {
	for id, st := range p.streams {
		rt.Assert(st.streamId == id, "stream-indexed-under-its-id")
		rt.Assert(vC19Count(p.streamIdsByPeer[st.peerId], id) == 1, "stream-once-under-its-peer")
		for _, t := range tags {
			rt.Assert(vC19Count(p.streamIdsByTag[t], id) == vC19CountS(st.tags, t), "tag-index-multiplicity-equals-stream-tags")
		}
	}
	for peerId, ids := range p.streamIdsByPeer {
		rt.Assert(len(ids) > 0, "no-empty-peer-entry")
		for _, id := range ids {
			st, ok := p.streams[id]
			rt.Assert(ok && st.peerId == peerId, "peer-index-names-live-streams")
		}
	}
	for _, ids := range p.streamIdsByTag {
		rt.Assert(len(ids) > 0, "no-empty-tag-entry")
		for _, id := range ids {
			_, ok := p.streams[id]
			rt.Assert(ok, "tag-index-names-live-streams")
		}
	}
}

// VerifC19Index: stream / tag bookkeeping stays consistent and closed streams disappear from every index.
func VerifC19Index() {
	k := rt.Param("k", 4)
	tags := []string{"t0", "t1"}
	peers := []string{"p0", "p1"}
	p := New().(*streamPool)
	var live []*stream
	var closedIds []uint32
	for step := 0; step < k; step++ {
		switch rt.Choose(5) {
		case 0: // add a stream with 0..2 tags (possibly duplicated)
			var ts []string
			nt := rt.Choose(3)
			for i := 0; i < nt; i++ {
				ts = append(ts, tags[rt.Choose(2)])
			}
			ds := &vC19Stream{ctx: peer.CtxWithPeerId(context.Background(), peers[rt.Choose(2)])}
			st, err := p.addStream(ds, 1, ts...)
			rt.Assert(err == nil, "add-stream")
			live = append(live, st)
		case 1:
			if len(live) > 0 {
				st := live[rt.Choose(len(live))]
				ctx := streamCtx(st.peerCtx, st.streamId, st.peerId)
				_ = p.AddTagsCtx(ctx, tags[rt.Choose(2)])
			}
		case 2:
			if len(live) > 0 {
				st := live[rt.Choose(len(live))]
				ctx := streamCtx(st.peerCtx, st.streamId, st.peerId)
				_ = p.RemoveTagsCtx(ctx, tags[rt.Choose(2)])
			}
		case 3:
			if len(live) > 0 {
				st := live[rt.Choose(len(live))]
				_ = p.RemoveTagsById(st.streamId, tags[rt.Choose(2)])
			}
		case 4: // the stream ends (twice: the second close must be a no-op)
			if len(live) > 0 {
				i := rt.Choose(len(live))
				st := live[i]
				st.streamClose()
				st.streamClose()
				rt.Assert(st.stream.(*vC19Stream).closed == 1, "stream-closed-exactly-once")
				closedIds = append(closedIds, st.streamId)
				live = append(live[:i], live[i+1:]...)
			}
		}
		vC19Consistent(p, tags)
		for _, id := range closedIds {
			_, ok := p.streams[id]
			rt.Assert(!ok, "closed-stream-removed")
			for _, t := range tags {
				rt.Assert(vC19Count(p.streamIdsByTag[t], id) == 0, "closed-stream-not-tagged")
			}
			for _, pr := range peers {
				rt.Assert(vC19Count(p.streamIdsByPeer[pr], id) == 0, "closed-stream-not-under-peer")
			}
		}
		rt.Assert(len(p.streams) == len(live), "live-streams-counted")
	}
	// later sends do not target closed streams; every live tagged stream gets exactly one copy per broadcast
	before := map[*stream]int{}
	for _, st := range live {
		before[st] = st.queue.Len()
	}
	_ = p.Broadcast(context.Background(), &vC19Msg{1}, "t0", "t1")
	for _, st := range live {
		want := 0
		if len(st.tags) > 0 {
			want = 1
		}
		got := st.queue.Len() - before[st]
		// queue size is 1: a full queue drops instead of blocking
		rt.Assert(got == want || (got == 0 && before[st] == 1), "broadcast-one-copy-per-tagged-stream")
	}
	rt.Reach("index")
}

// VerifC19Send: Send and SendById never run the dial or a write in the caller and never wait for room: with every
// dial worker stuck (none is ever scheduled here) and the dial queue filling up, each call returns; beyond the
// configured queue size the task is refused, not waited for.  Queue sizes 1..3 (symbolic).
func VerifC19Send() {
	size := rt.IntRange(1, 3)
	qs := rt.Concretize(size)
	p := New().(*streamPool)
	p.dial = NewExecPool(1, qs) // workers are not started: every dial is stuck forever
	dialled := 0
	getter := func(ctx context.Context) ([]peer.Peer, error) {
		dialled++
		return nil, nil
	}
	for i := 0; i < qs+2; i++ {
		err := p.Send(context.Background(), &vC19Msg{1}, getter)
		rt.Assert(dialled == 0, "send-does-not-dial-in-the-caller")
		if i < qs {
			rt.Assert(err == nil, "send-accepted-while-the-dial-queue-has-room")
		} else {
			rt.Assert(err != nil, "send-refused-when-the-dial-queue-is-full")
		}
	}
	// a stream whose writer is stuck: its queue takes the configured number of messages, the rest is dropped, no call waits
	ds := &vC19Stream{ctx: peer.CtxWithPeerId(context.Background(), "p0")}
	st, err := p.addStream(ds, qs, "t0")
	rt.Assert(err == nil, "add-stream")
	for i := 0; i < qs+2; i++ {
		_ = p.SendById(context.Background(), &vC19Msg{1}, "p0")
		_ = p.Broadcast(context.Background(), &vC19Msg{1}, "t0")
		rt.Assert(st.queue.Len() <= qs, "stream-buffers-at-most-its-queue-size")
		rt.Assert(ds.sent == 0, "writes-do-not-happen-in-the-caller")
	}
	rt.Assert(st.queue.Len() == qs, "stream-queue-fills-up-to-its-size")
	// a stuck peer delays nobody: a healthy stream (room in its queue) registered before or after the stuck one,
	// under the same tag or another, gets every broadcast and every direct send while the stuck one is full
	hs := &vC19Stream{ctx: peer.CtxWithPeerId(context.Background(), "p1")}
	order := rt.Choose(2)
	tag := []string{"t0", "t1"}[rt.Choose(2)]
	var healthy *stream
	if order == 0 {
		healthy, err = p.addStream(hs, 3*qs+8, tag)
	} else {
		// registered before the stuck stream in the tag index: a fresh pool with the healthy stream first
		p = New().(*streamPool)
		p.dial = NewExecPool(1, qs)
		healthy, err = p.addStream(hs, 3*qs+8, tag)
		rt.Assert(err == nil, "add-stream")
		ds = &vC19Stream{ctx: peer.CtxWithPeerId(context.Background(), "p0")}
		st, err = p.addStream(ds, qs, "t0")
		for i := 0; i < qs; i++ {
			_ = p.SendById(context.Background(), &vC19Msg{1}, "p0")
		}
	}
	rt.Assert(err == nil && st.queue.Len() == qs, "stuck-stream-is-full")
	for i := 0; i < qs+1; i++ {
		_ = p.Broadcast(context.Background(), &vC19Msg{1}, "t0", "t1")
		rt.Assert(healthy.queue.Len() == 2*i+1, "healthy-stream-gets-every-broadcast-despite-the-stuck-one")
		_ = p.SendById(context.Background(), &vC19Msg{1}, "p0")
		rt.Assert(p.SendById(context.Background(), &vC19Msg{1}, "p1") == nil, "direct-send-to-the-healthy-peer-succeeds")
		rt.Assert(healthy.queue.Len() == 2*i+2, "healthy-peer-gets-its-direct-send-while-another-peer-is-stuck")
		rt.Assert(st.queue.Len() == qs && hs.sent == 0, "nothing-waits-and-nothing-is-written-in-the-caller")
	}
	rt.Reach("send")
}
