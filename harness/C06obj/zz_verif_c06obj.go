//go:build verif

package objecttree

import (
	"context"

	rt "github.com/anyproto/any-sync/internal/verifrt"
)

// Two replicas of one tree driven through the real objectTree API: local adds
// (plain / snapshot) and full-sync transfers in both directions.  After the
// history, every view of a replica's store must present the full order
// restricted to what the view contains.

type vC06World struct {
	b    *vBuilder
	reps []*vReplica
	ctx  context.Context
}

func vC06NewWorld(nIds int) *vC06World {
	b := newVBuilder()
	ids := rt.Atoms(nIds+1, 2)
	b.nextIds = ids[1:]
	w := &vC06World{b: b, ctx: context.Background()}
	for i := 0; i < 2; i++ {
		r, err := vNewReplica(ids[0], b, "w")
		rt.Assert(err == nil, "replica-opens")
		w.reps = append(w.reps, r)
	}
	return w
}

func (w *vC06World) localAdd(i int, snapshot bool) bool {
	r := w.reps[i]
	_, err := r.ot.AddContent(w.ctx, SignableChangeContent{Data: []byte("d"), Key: &vTreeKey{id: "w"}, IsSnapshot: snapshot, Timestamp: 1, DataType: "t"})
	return err == nil
}

// transfer: `to` asks `from` for everything it lacks (full-sync request/response).
func (w *vC06World) transfer(from, to int) bool {
	src, dst := w.reps[from], w.reps[to]
	path, err := dst.ot.SnapshotPath()
	if err != nil {
		return false
	}
	loader, err := src.ot.ChangesAfterCommonSnapshotLoader(path, dst.ot.Heads())
	if err != nil {
		return false
	}
	batch, err := loader.NextBatch(1 << 20)
	if err != nil {
		return false
	}
	if len(batch.Batch) == 0 {
		return true
	}
	_, err = dst.ot.AddRawChanges(w.ctx, RawChangesPayload{NewHeads: batch.Heads, RawChanges: batch.Batch, SnapshotPath: batch.SnapshotPath})
	return err == nil
}

func (w *vC06World) isAncestorOrSelf(a, d string) bool {
	if a == d {
		return true
	}
	c, ok := w.b.table[d]
	if !ok {
		return false
	}
	for _, p := range c.PreviousIds {
		if w.isAncestorOrSelf(a, p) {
			return true
		}
	}
	return false
}

// restricted: seq must be `full` restricted to the ids of seq
func vC06Restricted(seq, full []string) bool {
	k := 0
	for _, id := range full {
		if k < len(seq) && seq[k] == id {
			k++
		}
	}
	return k == len(seq)
}

func (w *vC06World) checkReplica(r *vReplica, tag string) {
	// storage closure: every stored change has its parents and snapshot base stored; heads stored
	for id, sc := range r.store.changes {
		for _, p := range sc.PrevIds {
			_, ok := r.store.changes[p]
			rt.Assert(ok, tag+"-stored-parents-present")
		}
		if sc.SnapshotId != "" {
			_, ok := r.store.changes[sc.SnapshotId]
			rt.Assert(ok, tag+"-stored-snapshot-base-present")
		}
		_ = id
	}
	for _, h := range r.store.heads {
		_, ok := r.store.changes[h]
		rt.Assert(ok, tag+"-stored-heads-present")
	}
	rt.Assert(vSameSet(r.store.heads, r.ot.Heads()), tag+"-live-heads-equal-stored-heads")

	full, err := newTreeBuilder(r.store.clone(), w.b).BuildFull()
	rt.Assert(err == nil, tag+"-full-build")
	if err != nil {
		return
	}
	fullSeq := vSeqIds(full)
	rt.Assert(len(fullSeq) == len(r.store.changes), tag+"-full-build-has-everything")
	// storage order = iteration order: OrderIds strictly increase along the full sequence
	for i := 1; i < len(fullSeq); i++ {
		rt.Assert(r.store.changes[fullSeq[i-1]].OrderId < r.store.changes[fullSeq[i]].OrderId, tag+"-stored-order-is-iteration-order")
		rt.Assert(!w.isAncestorOrSelf(fullSeq[i], fullSeq[i-1]), tag+"-full-order-respects-causality")
	}
	liveSeq := vSeqIds(r.ot.tree)
	rt.Assert(vC06Restricted(liveSeq, fullSeq), tag+"-live-view-is-restriction-of-full-order")
	// reopen from storage
	re, err := vBuildObjectTree(r.store.clone(), w.b, r.acl)
	rt.Assert(err == nil, tag+"-reopen")
	if err == nil {
		rt.Assert(vSameSet(re.Heads(), r.ot.Heads()), tag+"-reopened-heads-equal")
		rt.Assert(vC06Restricted(vSeqIds(re.tree), fullSeq), tag+"-reopened-view-is-restriction-of-full-order")
	}
}

// history views: for a set of stored changes taken as heads, the history tree
// holds exactly the ancestors-or-self of those heads from its root on.
func (w *vC06World) checkHistory(r *vReplica, heads []string, tag string) {
	deps := objectTreeDeps{changeBuilder: w.b, treeBuilder: newTreeBuilder(r.store.clone(), w.b), storage: r.store.clone(),
		validator: vNoValidator{}, aclList: r.acl, flusher: &defaultFlusher{}}
	ht, err := buildHistoryTree(deps, HistoryTreeParams{Heads: heads, IncludeBeforeId: true})
	rt.Assert(err == nil, tag+"-history-builds")
	if err != nil {
		return
	}
	h := ht.(*historyTree)
	seq := vSeqIds(h.tree)
	root := h.tree.RootId()
	for id := range r.store.changes {
		anc := false
		for _, hd := range heads {
			if w.isAncestorOrSelf(id, hd) {
				anc = true
			}
		}
		in := vIndexOf(seq, id) >= 0
		if in {
			rt.Assert(anc, tag+"-history-only-ancestors-of-heads")
		}
		if anc && w.isAncestorOrSelf(root, id) {
			rt.Assert(in, tag+"-history-has-every-ancestor-after-root")
		}
	}
	// the root of the view must be a common ancestor of all requested heads
	for _, hd := range heads {
		rt.Assert(w.isAncestorOrSelf(root, hd), tag+"-history-root-below-every-head")
	}
	rt.Assert(vSameSet(h.tree.Heads(), vC06Maximal(w, heads)), tag+"-history-heads")
}

func vC06Maximal(w *vC06World, heads []string) []string {
	var out []string
	for _, a := range heads {
		max := true
		for _, b := range heads {
			if a != b && w.isAncestorOrSelf(a, b) {
				max = false
			}
		}
		if max && vIndexOf(out, a) < 0 {
			out = append(out, a)
		}
	}
	return out
}

// VerifC06Object: k operations over two replicas, then all views are compared.
func VerifC06Object() {
	k := rt.Param("k", 4)
	hist := rt.Param("history", 1)
	w := vC06NewWorld(k)
	for step := 0; step < k; step++ {
		switch rt.Choose(6) {
		case 0:
			rt.Assert(w.localAdd(0, false), "local-add-succeeds")
		case 1:
			rt.Assert(w.localAdd(0, true), "local-snapshot-succeeds")
		case 2:
			rt.Assert(w.localAdd(1, false), "local-add-succeeds")
		case 3:
			rt.Assert(w.localAdd(1, true), "local-snapshot-succeeds")
		case 4:
			rt.Assert(w.transfer(0, 1), "transfer-succeeds")
		case 5:
			rt.Assert(w.transfer(1, 0), "transfer-succeeds")
		}
	}
	w.checkReplica(w.reps[0], "r0")
	w.checkReplica(w.reps[1], "r1")
	// final anti-entropy in both directions: replicas converge
	rt.Assert(w.transfer(0, 1), "final-transfer-succeeds")
	rt.Assert(w.transfer(1, 0), "final-transfer-succeeds")
	rt.Assert(vSameSet(w.reps[0].ot.Heads(), w.reps[1].ot.Heads()), "replicas-converge-heads")
	rt.Assert(len(w.reps[0].store.changes) == len(w.reps[1].store.changes), "replicas-converge-stored-sets")
	w.checkReplica(w.reps[0], "r0-final")
	if hist == 1 {
		// history view for the final heads and for every pair of stored changes
		r := w.reps[0]
		w.checkHistory(r, r.ot.Heads(), "final-heads")
		var ids []string
		for id := range r.store.changes {
			ids = append(ids, id)
		}
		for i := 0; i < len(ids); i++ {
			for j := i; j < len(ids); j++ {
				hs := []string{ids[i]}
				if j != i {
					hs = append(hs, ids[j])
				}
				w.checkHistory(r, hs, "pair")
			}
		}
	}
	rt.Reach("done")
}
