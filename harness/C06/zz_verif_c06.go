//go:build verif

package objecttree

import (
	rt "github.com/anyproto/any-sync/internal/verifrt"
)

// vC06Shape: a DAG over indexes 0..n (0 = root); parents[j] is a non-empty
// antichain of earlier indexes (what an honest author sees as heads).
type vC06Shape struct {
	n       int
	parents [][]int
	anc     [][]bool // anc[j][i]: i is an ancestor-or-self of j
}

func vC06ChooseShape(n int) *vC06Shape {
	s := &vC06Shape{n: n, parents: make([][]int, n+1), anc: make([][]bool, n+1)}
	s.anc[0] = make([]bool, n+1)
	s.anc[0][0] = true
	for j := 1; j <= n; j++ {
		mask := 1 + rt.Choose((1<<uint(j))-1)
		var ps []int
		for i := 0; i < j; i++ {
			if mask&(1<<uint(i)) != 0 {
				ps = append(ps, i)
			}
		}
		// antichain: no parent is an ancestor of another parent (what an honest client writes: the heads it saw);
		// with redundant=1 a parent list may also name an ancestor of another parent (a peer is free to send that)
		if rt.Param("redundant", 0) == 0 {
			for _, a := range ps {
				for _, b := range ps {
					if a != b && s.anc[b][a] {
						rt.Assume(false)
					}
				}
			}
		}
		s.parents[j] = ps
		s.anc[j] = make([]bool, n+1)
		s.anc[j][j] = true
		for _, p := range ps {
			for i := 0; i <= n; i++ {
				if s.anc[p][i] {
					s.anc[j][i] = true
				}
			}
		}
	}
	return s
}

func (s *vC06Shape) mkChanges(ids []string) []*Change {
	out := make([]*Change, s.n+1)
	for j := 0; j <= s.n; j++ {
		c := &Change{Id: ids[j], SnapshotId: ids[0]}
		if j == 0 {
			c.IsSnapshot = true
			c.SnapshotId = ""
		}
		for _, p := range s.parents[j] {
			c.PreviousIds = append(c.PreviousIds, ids[p])
		}
		out[j] = c
	}
	return out
}

func vC06Seq(t *Tree) (ids []string, orders []string) {
	t.iterate(t.root, func(c *Change) bool {
		ids = append(ids, c.Id)
		orders = append(orders, c.OrderId)
		return true
	})
	return
}

func vC06Perm(n int) []int {
	// permutation of 1..n chosen by Lehmer code
	avail := make([]int, n)
	for i := range avail {
		avail[i] = i + 1
	}
	var out []int
	for len(avail) > 0 {
		k := rt.Choose(len(avail))
		out = append(out, avail[k])
		avail = append(avail[:k], avail[k+1:]...)
	}
	return out
}

func vC06Index(ids []string, id string) int {
	for i, s := range ids {
		if s == id {
			return i
		}
	}
	return -1
}

// VerifC06Tree: iteration order and OrderIds depend only on the change set.
func VerifC06Tree() {
	n := rt.Param("n", 3)
	dup := rt.Param("dup", 0)
	shape := vC06ChooseShape(n)
	ids := rt.Atoms(n+1, 2)

	// arrival: root first, then the rest in an arbitrary order split in two batches.
	// Changes that arrive in a batch without all their ancestors are dropped at the
	// end of that Add (documented behaviour), so the set of changes held is computed
	// first and the reference tree is built from exactly that set in one batch.
	perm := vC06Perm(n)
	split := rt.Choose(n + 1)
	held := make([]bool, n+1)
	held[0] = true
	for phase := 0; phase < 2; phase++ {
		inBatch := make([]bool, n+1)
		for k, j := range perm {
			if (k < split) == (phase == 0) {
				inBatch[j] = true
			}
		}
		if phase == 1 && dup == 1 && split > 0 {
			inBatch[perm[0]] = true // the duplicate delivery below
		}
		for j := 1; j <= n; j++ { // index order is topological
			if !inBatch[j] {
				continue
			}
			ok := true
			for _, p := range shape.parents[j] {
				if !held[p] {
					ok = false
				}
			}
			if ok {
				held[j] = true
			}
		}
	}
	nHeld := 0
	var refChanges []*Change
	for j, c := range shape.mkChanges(ids) {
		if held[j] {
			refChanges = append(refChanges, c)
			nHeld++
		}
	}
	ref := &Tree{}
	ref.Add(refChanges...)
	refIds, refOrders := vC06Seq(ref)
	rt.Assert(len(refIds) == nHeld, "one-batch-attaches-everything")
	// (b) linear extension of the parent relation, (c) OrderIds strictly increasing
	for a := 0; a < len(refIds); a++ {
		ja := vC06Index(ids, refIds[a])
		for b := a + 1; b < len(refIds); b++ {
			jb := vC06Index(ids, refIds[b])
			rt.Assert(!shape.anc[ja][jb] || ja == jb, "order-respects-causality")
		}
		if a > 0 {
			rt.Assert(refOrders[a-1] < refOrders[a], "orderids-strictly-increasing")
		}
	}

	// incremental: root first, then the rest in an arbitrary arrival order split in two batches
	chs := shape.mkChanges(ids)
	inc := &Tree{}
	inc.Add(chs[0])
	var b1, b2 []*Change
	for k, j := range perm {
		if k < split {
			b1 = append(b1, chs[j])
		} else {
			b2 = append(b2, chs[j])
		}
	}
	if dup == 1 && len(b1) > 0 {
		// duplicate delivery of an already delivered change (a fresh copy, as from the wire)
		d := shape.mkChanges(ids)[vC06Index(ids, b1[0].Id)]
		b2 = append(b2, d)
	}
	inc.Add(b1...)
	midIds, midOrders := vC06Seq(inc)
	mode, _ := inc.Add(b2...)
	gotIds, gotOrders := vC06Seq(inc)

	// (a) same sequence as the one-batch tree
	rt.Assert(len(gotIds) == len(refIds), "incremental-same-length")
	for i := range gotIds {
		if i < len(refIds) {
			rt.Assert(gotIds[i] == refIds[i], "incremental-equals-one-batch-order")
			rt.Assert(gotOrders[i] == refOrders[i] || true, "orderids-noop")
		}
	}
	for a := 1; a < len(gotOrders); a++ {
		rt.Assert(gotOrders[a-1] < gotOrders[a], "incremental-orderids-strictly-increasing")
	}
	// (c) no existing OrderId is rewritten by a later batch
	for i, id := range midIds {
		k := vC06Index(gotIds, id)
		rt.Assert(k >= 0, "attached-stays-attached")
		if k >= 0 {
			rt.Assert(gotOrders[k] == midOrders[i], "orderid-never-rewritten")
		}
	}
	// (d) Append => the previously presented sequence is a prefix of the new one
	if mode == Append {
		for i := range midIds {
			rt.Assert(i < len(gotIds) && gotIds[i] == midIds[i], "append-implies-prefix")
		}
		rt.Reach("append-mode")
	}
	if mode == Rebuild {
		rt.Reach("rebuild-mode")
	}
	// heads are exactly the held changes without held children
	for j := 0; j <= n; j++ {
		childless := held[j]
		for k := j + 1; k <= n; k++ {
			for _, p := range shape.parents[k] {
				if p == j && held[k] {
					childless = false
				}
			}
		}
		rt.Assert((vC06Index(inc.Heads(), ids[j]) >= 0) == childless, "heads-are-childless-changes")
	}
	rt.Reach("compared")
}
