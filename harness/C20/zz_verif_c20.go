//go:build verif

package app

import (
	"context"
	"errors"

	rt "github.com/anyproto/any-sync/internal/verifrt"
)

// Events are encoded as kind*16+index: 1=Init 2=Run 3=Close.
type vC20Comp struct {
	idx                          int
	name                         string
	log                          *[]int
	failInit, failRun, failClose bool
}

var errVC20 = errors.New("verif: injected failure")

func (c *vC20Comp) Init(a *App) error {
	*c.log = append(*c.log, 1*16+c.idx)
	if c.failInit {
		return errVC20
	}
	return nil
}
func (c *vC20Comp) Name() string { return c.name }

type vC20Run struct{ vC20Comp }

func (c *vC20Run) Run(ctx context.Context) error {
	*c.log = append(*c.log, 2*16+c.idx)
	if c.failRun {
		return errVC20
	}
	return nil
}
func (c *vC20Run) Close(ctx context.Context) error {
	*c.log = append(*c.log, 3*16+c.idx)
	if c.failClose {
		return errVC20
	}
	return nil
}

func vC20Equal(a, b []int) bool {
	if len(a) != len(b) {
		return false
	}
	for i := range a {
		if a[i] != b[i] {
			return false
		}
	}
	return true
}

// VerifC20Start: ordered start, reverse stop, failure handling.
func VerifC20Start() {
	n := rt.Param("n", 3)
	names := []string{"c0", "c1", "c2", "c3", "c4", "c5"}
	var log []int
	a := new(App)
	runnable := make([]bool, n)
	fInit := make([]bool, n)
	fRun := make([]bool, n)
	fClose := make([]bool, n)
	for i := 0; i < n; i++ {
		runnable[i] = rt.Choose(2) == 1
		fInit[i] = rt.Bool()
		base := vC20Comp{idx: i, name: names[i], log: &log, failInit: fInit[i]}
		if runnable[i] {
			fRun[i] = rt.Bool()
			fClose[i] = rt.Bool()
			base.failRun, base.failClose = fRun[i], fClose[i]
			a.Register(&vC20Run{base})
		} else {
			a.Register(&base)
		}
	}
	ctx := context.Background()
	err := a.Start(ctx)

	// reference
	var exp []int
	failAt := -1
	for i := 0; i < n && failAt < 0; i++ {
		exp = append(exp, 1*16+i)
		if fInit[i] {
			failAt = i
		}
	}
	if failAt < 0 {
		for i := 0; i < n && failAt < 0; i++ {
			if runnable[i] {
				exp = append(exp, 2*16+i)
				if fRun[i] {
					failAt = i
				}
			}
		}
	}
	if failAt >= 0 {
		for i := failAt; i >= 0; i-- {
			if runnable[i] {
				exp = append(exp, 3*16+i)
			}
		}
	}
	rt.Assert((err != nil) == (failAt >= 0), "start-error-iff-failure")
	rt.Assert(vC20Equal(log, exp), "start-call-sequence")
	if failAt >= 0 {
		rt.Assert(errors.Is(err, errVC20), "start-error-wraps-cause")
		rt.Reach("start-failed")
		return
	}
	// successful start: Close closes all runnables in reverse order
	log = log[:0]
	cerr := a.Close(ctx)
	var expc []int
	anyFail := false
	for i := n - 1; i >= 0; i-- {
		if runnable[i] {
			expc = append(expc, 3*16+i)
			if fClose[i] {
				anyFail = true
			}
		}
	}
	rt.Assert(vC20Equal(log, expc), "close-reverse-order")
	rt.Assert((cerr != nil) == anyFail, "close-error-iff-failure")
	rt.Reach("closed")
}

// VerifC20Lookup: a three-level nesting (root, child, grandchild) with names "a" and "b"; registrations and
// lookups interleaved in any order.  At every moment a lookup in a container returns the component registered
// under that name in the nearest container on the way up, or nil.
func VerifC20Lookup() {
	k := rt.Param("k", 4)
	root := new(App)
	apps := []*App{root, nil, nil}
	apps[1] = apps[0].ChildApp()
	apps[2] = apps[1].ChildApp()
	names := []string{"a", "b"}
	var logBuf []int
	reg := [3][2]*vC20Comp{}
	for step := 0; step < k; step++ {
		level := rt.Choose(3)
		ni := rt.Choose(2)
		if rt.Choose(2) == 0 {
			if reg[level][ni] != nil {
				continue // a second registration under one name in one container panics by design
			}
			c := &vC20Comp{idx: level*2 + ni, name: names[ni], log: &logBuf}
			apps[level].Register(c)
			reg[level][ni] = c
			continue
		}
		var want *vC20Comp
		for l := level; l >= 0 && want == nil; l-- {
			want = reg[l][ni]
		}
		got := apps[level].Component(names[ni])
		if want == nil {
			rt.Assert(got == nil, "unregistered-name-resolves-to-nothing")
		} else {
			gc, ok := got.(*vC20Comp)
			rt.Assert(ok && gc == want, "name-resolves-locally-first-then-through-the-parents")
		}
		rt.Reach("looked-up")
	}
}
