//go:build verif

package keyvalue

import (
	"context"
	"errors"
	"io"

	"github.com/cespare/xxhash"
	libcrypto "github.com/libp2p/go-libp2p/core/crypto"
	"storj.io/drpc"

	"github.com/anyproto/any-sync/commonspace/object/accountdata"
	"github.com/anyproto/any-sync/commonspace/object/acl/list"
	"github.com/anyproto/any-sync/commonspace/object/keyvalue/keyvaluestorage"
	"github.com/anyproto/any-sync/commonspace/object/keyvalue/keyvaluestorage/innerstorage"
	"github.com/anyproto/any-sync/commonspace/spacesyncproto"
	"github.com/anyproto/any-sync/internal/verifkv"
	rt "github.com/anyproto/any-sync/internal/verifrt"
	"github.com/anyproto/any-sync/net/peer"
	"github.com/anyproto/any-sync/util/crypto"
)

type vKsPub struct{ id string }

func (k *vKsPub) Equals(o crypto.Key) bool {
	p, ok := o.(*vKsPub)
	return ok && p.id == k.id
}
func (k *vKsPub) Raw() ([]byte, error)             { return []byte(k.id), nil }
func (k *vKsPub) Encrypt(m []byte) ([]byte, error) { return m, nil }
func (k *vKsPub) Verify(d []byte, s []byte) (bool, error) {
	return string(s) == "S("+k.id+")"+string(d), nil
}
func (k *vKsPub) Marshall() ([]byte, error)         { return []byte(k.id), nil }
func (k *vKsPub) Storage() []byte                   { return []byte(k.id) }
func (k *vKsPub) Account() string                   { return k.id }
func (k *vKsPub) Network() string                   { return k.id }
func (k *vKsPub) PeerId() string                    { return k.id }
func (k *vKsPub) LibP2P() (libcrypto.PubKey, error) { return nil, errors.New("n/a") }

type vKsBroadcast struct{}

func (vKsBroadcast) Broadcast(ctx context.Context, objectId string, keyValues ...innerstorage.KeyValue) error {
	return nil
}

func vKsInstall() {
	rt.Replace("github.com/anyproto/any-sync/util/crypto.UnmarshalEd25519PublicKeyProto", func(b []byte) (crypto.PubKey, error) {
		if len(b) == 0 {
			return nil, errors.New("verif: empty key")
		}
		return &vKsPub{id: string(b)}, nil
	})
	rt.Replace("github.com/anyproto/any-sync/util/crypto.DecodeAccountAddress", func(address string) (crypto.PubKey, error) {
		if len(address) == 0 {
			return nil, errors.New("verif: empty address")
		}
		return &vKsPub{id: address}, nil
	})
	xxhash.VerifSum64 = func(b []byte) uint64 {
		h := uint64(14695981039346656037)
		for _, c := range b {
			h ^= uint64(c)
			h *= 1099511628211
		}
		return h
	}
}

// a value as a device builds it (signed by device and account); timestamps are small constants here
func vKsValue(key, peerId string, ts int64) *spacesyncproto.StoreKeyValue {
	inner, _ := (&spacesyncproto.StoreKeyInner{Peer: []byte(peerId), Identity: []byte("alice"), Value: []byte("v"), TimestampMicro: ts, AclHeadId: "acl0", Key: key}).MarshalVT()
	return &spacesyncproto.StoreKeyValue{KeyPeerId: key + "-" + peerId, Value: inner,
		PeerSignature: []byte("S(" + peerId + ")" + string(inner)), IdentitySignature: []byte("S(alice)" + string(inner))}
}

type vKsNode struct {
	w   *verifkv.World
	svc *keyValueService
}

func vKsNewNode() *vKsNode {
	w := verifkv.NewWorld()
	acl := list.VerifNewAcl([]string{"acl0"}, []list.VerifPerm{{Key: &vKsPub{id: "alice"}, Since: []int{0}, Perms: []list.AclPermissions{list.AclPermissionsWriter}}})
	st, err := keyvaluestorage.New(context.Background(), "kv", &verifkv.DB{W: w}, &verifkv.HeadStorage{W: w}, &accountdata.AccountKeys{}, vKsBroadcast{}, acl, keyvaluestorage.NoOpIndexer{})
	rt.Assert(err == nil, "store-opens")
	return &vKsNode{w: w, svc: &keyValueService{spaceId: "space", storageId: "kv", ctx: context.Background(), defaultStore: st}}
}

// the RPC between the two services, run without goroutines: the initiator sends its whole request part before its
// first Recv (that is how syncWithPeer is written), at which point the responder's handler runs to completion
type vKsStream struct {
	drpc.Stream
	responder *keyValueService
	toServer  []*spacesyncproto.StoreKeyValue
	toClient  []*spacesyncproto.StoreKeyValue
	served    bool
	serverErr error
}

func (s *vKsStream) Send(m *spacesyncproto.StoreKeyValue) error { s.toServer = append(s.toServer, m); return nil }
func (s *vKsStream) CloseSend() error                           { return nil }
func (s *vKsStream) Recv() (*spacesyncproto.StoreKeyValue, error) {
	if !s.served {
		s.served = true
		// the first message names the space (consumed by the rpc handler in front of the service)
		srv := &vKsServerStream{in: s.toServer[1:], out: &s.toClient}
		s.serverErr = s.responder.HandleStoreElementsRequest(context.Background(), srv)
	}
	if len(s.toClient) == 0 {
		if s.serverErr != nil {
			return nil, s.serverErr
		}
		return nil, io.EOF
	}
	m := s.toClient[0]
	s.toClient = s.toClient[1:]
	return m, nil
}

type vKsServerStream struct {
	drpc.Stream
	in  []*spacesyncproto.StoreKeyValue
	out *[]*spacesyncproto.StoreKeyValue
}

func (s *vKsServerStream) Send(m *spacesyncproto.StoreKeyValue) error { *s.out = append(*s.out, m); return nil }
func (s *vKsServerStream) Recv() (*spacesyncproto.StoreKeyValue, error) {
	if len(s.in) == 0 {
		return nil, io.EOF
	}
	m := s.in[0]
	s.in = s.in[1:]
	return m, nil
}

type vKsClient struct {
	spacesyncproto.DRPCSpaceSyncClient
	responder *keyValueService
}

func (c *vKsClient) StoreDiff(ctx context.Context, req *spacesyncproto.StoreDiffRequest) (*spacesyncproto.StoreDiffResponse, error) {
	return c.responder.HandleStoreDiffRequest(ctx, req)
}
func (c *vKsClient) StoreElements(ctx context.Context) (spacesyncproto.DRPCSpaceSync_StoreElementsClient, error) {
	return &vKsStream{responder: c.responder}, nil
}

type vKsPeer struct {
	peer.Peer
}

func (p *vKsPeer) Id() string                                                 { return "B" }
func (p *vKsPeer) AcquireDrpcConn(ctx context.Context) (drpc.Conn, error)     { return nil, nil }
func (p *vKsPeer) ReleaseDrpcConn(ctx context.Context, conn drpc.Conn)        {}

func vKsStored(w *verifkv.World, slot string) int64 {
	d, ok := w.Docs[slot]
	if !ok {
		return 0
	}
	return int64(d.GetFloat64("t"))
}

// VerifC12Sync: one sync exchange (range-hash diff, push of what the peer lacks or holds older, pull of what we
// lack or hold older) makes two stores equal: every slot ends with the greatest timestamp either side held, on
// both sides, and both advertise the same index.
func VerifC12Sync() {
	vKsInstall()
	ctx := context.Background()
	a, b := vKsNewNode(), vKsNewNode()
	a.svc.clientFactory = spacesyncproto.ClientFactoryFunc(func(cc drpc.Conn) spacesyncproto.DRPCSpaceSyncClient {
		return &vKsClient{responder: b.svc}
	})
	slots := []struct{ key, dev string }{{"k", "dev1"}, {"j", "dev1"}, {"k", "dev2"}}
	want := map[string]int64{}
	for _, sl := range slots {
		id := sl.key + "-" + sl.dev
		ta := int64(rt.Choose(4)) // 0: the side does not hold the slot
		tb := int64(rt.Choose(4))
		if ta > 0 {
			rt.Assert(a.svc.defaultStore.SetRaw(ctx, vKsValue(sl.key, sl.dev, ta)) == nil, "setup-a")
		}
		if tb > 0 {
			rt.Assert(b.svc.defaultStore.SetRaw(ctx, vKsValue(sl.key, sl.dev, tb)) == nil, "setup-b")
		}
		want[id] = ta
		if tb > ta {
			want[id] = tb
		}
	}
	err := a.svc.syncWithPeer(ctx, &vKsPeer{})
	rt.Assert(err == nil, "sync-completes")
	for id, t := range want {
		rt.Assert(vKsStored(a.w, id) == t, "initiator-holds-the-newest-value-of-every-slot")
		rt.Assert(vKsStored(b.w, id) == t, "responder-holds-the-newest-value-of-every-slot")
	}
	rt.Assert(len(a.w.Docs) == len(b.w.Docs), "stores-hold-the-same-slots")
	da, db := a.svc.defaultStore.InnerStorage().Diff(), b.svc.defaultStore.InnerStorage().Diff()
	rt.Assert(da.Hash() == db.Hash(), "both-advertise-the-same-index")
	rt.Reach("synced")
}
