//go:build verif

package deletionmanager

import (
	"context"
	"errors"

	"github.com/anyproto/any-sync/app"
	"github.com/anyproto/any-sync/app/logger"
	"github.com/anyproto/any-sync/commonspace/deletionstate"
	"github.com/anyproto/any-sync/commonspace/headsync/headstorage"
	"github.com/anyproto/any-sync/commonspace/object/tree/objecttree"
	"github.com/anyproto/any-sync/commonspace/object/tree/treechangeproto"
	"github.com/anyproto/any-sync/commonspace/object/treemanager"
	"github.com/anyproto/any-sync/commonspace/spacestorage"
	"github.com/anyproto/any-sync/internal/verifstore"
	rt "github.com/anyproto/any-sync/internal/verifrt"
	"github.com/anyproto/any-sync/util/crypto"
)

// The real deletion worker (deleter.Delete with its bound-children cascade) over the real deletion state, the real
// head storage and the real tree storage, all on the any-store model.

// change builder for tree roots: the parent binding is read from a table (decoding is C02's subject)
type vC15wBuilder struct {
	objecttree.ChangeBuilder
	parents map[string]string
}

func (b vC15wBuilder) Unmarshall(raw *treechangeproto.RawTreeChangeWithId, verify bool) (*objecttree.Change, error) {
	return &objecttree.Change{Id: raw.Id, IsSnapshot: true, ParentId: b.parents[raw.Id]}, nil
}

type vC15wSpace struct {
	spacestorage.SpaceStorage
	db *verifstore.DB
	hs headstorage.HeadStorage
}

func (s *vC15wSpace) Init(a *app.App) error { return nil }
func (s *vC15wSpace) Name() string          { return spacestorage.CName }
func (s *vC15wSpace) Id() string            { return "space" }
func (s *vC15wSpace) HeadStorage() headstorage.HeadStorage { return s.hs }
func (s *vC15wSpace) TreeStorage(ctx context.Context, id string) (objecttree.Storage, error) {
	return objecttree.NewStorage(ctx, id, s.hs, s.db)
}

// tree manager: deleting a tree removes its stored data (what syncTree.Delete does through its storage)
type vC15wTrees struct {
	treemanager.TreeManager
	space *vC15wSpace
}

func (t *vC15wTrees) DeleteTree(ctx context.Context, spaceId, treeId string) error {
	st, err := t.space.TreeStorage(ctx, treeId)
	if err != nil {
		return err
	}
	return st.Delete(ctx)
}
func (t *vC15wTrees) MarkTreeDeleted(ctx context.Context, spaceId, treeId string) error { return nil }

type vC15wWorld struct {
	w       *verifstore.World
	space   *vC15wSpace
	state   deletionstate.ObjectDeletionState
	builder vC15wBuilder
}

func (w *vC15wWorld) restart() {
	w.space.hs, _ = headstorage.New(context.Background(), w.space.db)
	a := new(app.App)
	a.Register(w.space)
	w.state = deletionstate.New()
	rt.Assert(w.state.Init(a) == nil, "state-init")
	rt.Assert(w.state.(app.ComponentRunnable).Run(context.Background()) == nil, "state-run")
}

func (w *vC15wWorld) create(id, parent string) {
	w.builder.parents[id] = parent
	_, err := objecttree.CreateStorage(context.Background(), &treechangeproto.RawTreeChangeWithId{Id: id, RawChange: []byte{1}}, w.space.hs, w.space.db)
	rt.Assert(err == nil || errors.Is(err, objecttree.ErrParentNotFound), "tree-created")
}

func (w *vC15wWorld) status(id string) (headstorage.DeletedStatus, bool) {
	e, err := w.space.hs.GetEntry(context.Background(), id)
	if err != nil {
		return 0, false
	}
	return e.DeletedStatus, true
}

func (w *vC15wWorld) hasData(id string) bool {
	return w.w.Doc(objecttree.CollName, id) != nil
}

// VerifC15Worker: deletion recorded for a parent reaches its bound children - present ones and ones arriving later -
// and is final: after the worker has run the tree data is gone, the entries are marked deleted and absent from the
// live index, and nothing returns after a restart.
func VerifC15Worker() {
	k := rt.Param("k", 3)
	ctx := context.Background()
	world := verifstore.NewWorld()
	w := &vC15wWorld{w: world, space: &vC15wSpace{db: &verifstore.DB{W: world}}, builder: vC15wBuilder{parents: map[string]string{}}}
	objecttree.StorageChangeBuilder = func(keys crypto.KeyStorage, root *treechangeproto.RawTreeChangeWithId) objecttree.ChangeBuilder {
		return w.builder
	}
	w.restart()
	w.create("p", "")
	w.create("c", "p")
	w.create("x", "")
	recorded := map[string]bool{} // ids whose deletion has been recorded, directly or through their parent
	lateMade, lateAfterDeletion := false, false
	for step := 0; step < k; step++ {
		workerRan := false
		switch rt.Choose(4) {
		case 0: // a deletion record arrives
			id := []string{"p", "c", "x"}[rt.Choose(3)]
			w.state.Add(map[string]struct{}{id: {}})
			recorded[id] = true
		case 1: // the deletion worker runs
			newDeleter(w.space, w.state, &vC15wTrees{space: w.space}, logger.NewNamed("verif")).Delete(ctx)
			workerRan = true
		case 2: // restart
			w.restart()
		case 3: // a child of p arrives late
			if !lateMade {
				w.create("late", "p")
				lateMade = true
				lateAfterDeletion = recorded["p"]
			}
		}
		// children share their parent's fate
		if recorded["p"] {
			if st, ok := w.status("p"); ok && st == headstorage.DeletedStatusDeleted {
				recorded["c"] = true
			}
		}
		for _, id := range []string{"p", "c", "x", "late"} {
			st, ok := w.status(id)
			if !ok {
				continue
			}
			if recorded[id] {
				rt.Assert(st >= headstorage.DeletedStatusQueued, "recorded-deletion-is-durable")
				rt.Assert(w.state.Exists(id), "recorded-deletion-is-known")
			}
			if st == headstorage.DeletedStatusDeleted {
				rt.Assert(!w.hasData(id), "deleted-object-has-no-stored-data")
			}
			if st == headstorage.DeletedStatusNotDeleted {
				rt.Assert(w.hasData(id), "live-object-keeps-its-data")
			}
		}
		if pst, ok := w.status("p"); ok && pst >= headstorage.DeletedStatusQueued && lateAfterDeletion {
			lst, lok := w.status("late")
			rt.Assert(lok && lst >= headstorage.DeletedStatusQueued, "late-child-of-a-deleted-parent-is-queued")
		}
		if workerRan {
			// everything whose deletion was known to the running state is now final
			for _, id := range []string{"p", "c", "x"} {
				if recorded[id] {
					st, _ := w.status(id)
					rt.Assert(st == headstorage.DeletedStatusDeleted, "worker-finalises-recorded-deletions")
				}
			}
			if recorded["p"] {
				st, _ := w.status("c")
				rt.Assert(st == headstorage.DeletedStatusDeleted, "worker-deletes-the-bound-children-of-a-deleted-parent")
				if lateMade && !lateAfterDeletion {
					st, _ := w.status("late")
					rt.Assert(st == headstorage.DeletedStatusDeleted, "worker-deletes-the-bound-children-of-a-deleted-parent")
				}
			}
		}
		// the live index lists exactly the objects that are not deleted
		live := map[string]bool{}
		err := w.space.hs.IterateEntries(ctx, headstorage.IterOpts{}, func(e headstorage.HeadsEntry) (bool, error) {
			live[e.Id] = true
			return true, nil
		})
		rt.Assert(err == nil, "live-entries-iterate")
		for _, id := range []string{"p", "c", "x", "late"} {
			if st, ok := w.status(id); ok {
				rt.Assert(live[id] == (st == headstorage.DeletedStatusNotDeleted), "live-index-lists-exactly-the-undeleted")
			}
		}
	}
	rt.Reach("worker")
}
