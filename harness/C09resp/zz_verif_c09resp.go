//go:build verif

package response

import (
	"context"

	"github.com/anyproto/any-sync/commonspace/object/tree/objecttree"
	rt "github.com/anyproto/any-sync/internal/verifrt"
)

// The real response producer over the real objectTree and load iterator: the batches streamed to a requester
// that holds only the root (or sends an empty request) announce, batch by batch, only heads the requester
// has by then - the root it had, or a change sent so far - and together carry every change of the responder.
func VerifC09Producer() {
	n := rt.Param("n", 3)
	ids := rt.Atoms(n+1, 2)
	b := objecttree.VerifNewBuilder(ids[1:])
	r, err := objecttree.VerifNewReplica(ids[0], b, "w")
	rt.Assert(err == nil, "open")
	tree := r.Tree()
	ctx := context.Background()
	for i := 0; i < n; i++ {
		_, err := tree.AddContent(ctx, objecttree.SignableChangeContent{Data: []byte("d"), Key: objecttree.VerifKey("w"), Timestamp: 1, DataType: "t"})
		rt.Assert(err == nil, "setup-add")
	}
	var heads, path []string
	if rt.Bool() {
		heads, path = []string{ids[0]}, []string{ids[0]}
	}
	p, err := NewResponseProducer("space", tree, heads, path)
	rt.Assert(err == nil, "producer")
	limit := 1 + rt.Choose(2) // one or two unit-size changes per batch
	have := map[string]bool{ids[0]: true}
	sent := 0
	for round := 0; round < n+2; round++ {
		resp, err := p.NewResponse(limit)
		rt.Assert(err == nil, "batch")
		if len(resp.Changes) == 0 {
			break
		}
		for _, c := range resp.Changes {
			have[c.Id] = true
			sent++
		}
		for _, h := range resp.Heads {
			rt.Assert(have[h], "announced-heads-are-among-what-the-requester-has-by-then")
		}
		rt.Reach("batch")
	}
	for _, id := range ids[1:] {
		rt.Assert(have[id], "every-change-is-sent")
	}
	rt.Reach("streamed")
}
