//go:build verif

package list

import (
	"github.com/anyproto/any-sync/commonspace/object/accountdata"
	"github.com/anyproto/any-sync/commonspace/object/acl/aclrecordproto"
	"github.com/anyproto/any-sync/commonspace/object/acl/recordverifier"
	"github.com/anyproto/any-sync/consensus/consensusproto"
	rt "github.com/anyproto/any-sync/internal/verifrt"
	"github.com/anyproto/any-sync/util/cidutil"
	"github.com/anyproto/any-sync/util/crypto"
)

// ---- content ids: injective interning (as in the C03 harness)

var vC05Cids map[string]string

func vC05Cid(data []byte) string {
	if id, ok := vC05Cids[string(data)]; ok {
		return id
	}
	n := len(vC05Cids)
	id := "rec" + string(rune('0'+n/10)) + string(rune('0'+n%10))
	vC05Cids[string(data)] = id
	return id
}

func vC05Install() {
	vC05Cids = map[string]string{}
	rt.Replace("github.com/anyproto/any-sync/util/cidutil.VerifyCid", func(data []byte, id string) bool { return vC05Cid(data) == id })
	rt.Replace("github.com/anyproto/any-sync/util/cidutil.NewCidFromBytes", func(data []byte) (string, error) { return vC05Cid(data), nil })
	vCryptoInstall()
}

type vC05Invite struct {
	rec       string
	key       *vPriv
	anyone    bool
	revokedAt int // -1: live; otherwise the number of key generations that existed before the revoking record
}

type vC05World struct {
	accts   []string
	lists   map[string]*aclList
	log     []*consensusproto.RawRecordWithId
	gens    []string // raw bytes of every read key generation, in order of introduction
	lostAt  map[string]int
	invites []*vC05Invite
}

func vC05NewList(root *consensusproto.RawRecordWithId, observer string) *aclList {
	st, err := NewInMemoryStorage(root.Id, []*consensusproto.RawRecordWithId{root})
	rt.Assert(err == nil, "storage")
	l, err := BuildAclListWithIdentity(&accountdata.AccountKeys{SignKey: &vPriv{id: observer}, PeerId: observer}, st, recordverifier.NewValidateFull())
	rt.Assert(err == nil, "list-builds")
	return l.(*aclList)
}

func vC05Fresh() (crypto.SymKey, crypto.PrivKey, string) {
	vCryptoSeq++
	k := vSymKey(vCryptoSeq)
	raw, _ := k.Raw()
	return k, &vPriv{id: "mk" + string(rune('0'+vCryptoSeq/10)) + string(rune('0'+vCryptoSeq%10))}, string(raw)
}

func vC05NewWorld() *vC05World {
	w := &vC05World{accts: []string{"own", "a", "b"}, lists: map[string]*aclList{}, lostAt: map[string]int{}}
	rk, mk, raw := vC05Fresh()
	b := NewAclRecordBuilder("", crypto.NewKeyStorage(), &accountdata.AccountKeys{SignKey: &vPriv{id: "own"}, PeerId: "own"}, recordverifier.NewValidateFull())
	root, err := b.BuildRoot(RootContent{PrivKey: &vPriv{id: "own"}, MasterKey: &vPriv{id: "master"}, SpaceId: "space",
		Change: ReadKeyChangePayload{MetadataKey: mk, ReadKey: rk}, Metadata: []byte("m")})
	rt.Assert(err == nil, "root-builds")
	w.log = append(w.log, root)
	w.gens = append(w.gens, raw)
	for _, x := range w.accts {
		w.lists[x] = vC05NewList(root, x)
	}
	return w
}

func (w *vC05World) perm(x string) AclPermissions {
	return w.lists["own"].aclState.Permissions(&vPub{id: x})
}

// add delivers a record built by one account to every account's own list
func (w *vC05World) add(raw *consensusproto.RawRecord, newGen string) {
	payload, err := raw.MarshalVT()
	rt.Assert(err == nil, "marshal")
	id, _ := cidutil.NewCidFromBytes(payload)
	rec := &consensusproto.RawRecordWithId{Payload: payload, Id: id}
	before := map[string]bool{}
	for _, x := range w.accts {
		before[x] = !w.perm(x).NoPermissions()
	}
	gensBefore := len(w.gens)
	for _, x := range w.accts {
		rt.Assert(w.lists[x].AddRawRecord(rec) == nil, "every-account-accepts-the-built-record")
	}
	w.log = append(w.log, rec)
	if newGen != "" {
		w.gens = append(w.gens, newGen)
	}
	for _, x := range w.accts {
		if before[x] && w.perm(x).NoPermissions() {
			w.lostAt[x] = gensBefore
		}
	}
}

func (w *vC05World) liveInvite(anyone bool) *vC05Invite {
	for i := len(w.invites) - 1; i >= 0; i-- {
		if w.invites[i].revokedAt < 0 && w.invites[i].anyone == anyone {
			return w.invites[i]
		}
	}
	return nil
}

// one membership operation, built by the real client-side record builder; false: refused by the builder
func (w *vC05World) step(op int, tgt string) bool {
	own := w.lists["own"].RecordBuilder()
	tb := w.lists[tgt].RecordBuilder()
	tpub := &vPub{id: tgt}
	perm := func() AclPermissions {
		return []AclPermissions{AclPermissionsReader, AclPermissionsAdmin}[rt.Choose(2)]
	}
	switch op {
	case 0: // anyone-can-join invite
		res, err := own.BuildInviteAnyone(AclPermissionsReader)
		if err != nil {
			return false
		}
		w.add(res.InviteRec, "")
		w.invites = append(w.invites, &vC05Invite{rec: w.log[len(w.log)-1].Id, key: res.InviteKey.(*vPriv), anyone: true, revokedAt: -1})
	case 1: // request-to-join invite
		res, err := own.BuildInvite()
		if err != nil {
			return false
		}
		w.add(res.InviteRec, "")
		w.invites = append(w.invites, &vC05Invite{rec: w.log[len(w.log)-1].Id, key: res.InviteKey.(*vPriv), revokedAt: -1})
	case 2: // join through the anyone-can-join invite
		inv := w.liveInvite(true)
		if inv == nil {
			return false
		}
		rec, err := tb.BuildInviteJoinWithoutApprove(InviteJoinPayload{InviteKey: inv.key, Metadata: []byte("m")})
		if err != nil {
			return false
		}
		w.add(rec, "")
	case 3: // request to join
		inv := w.liveInvite(false)
		if inv == nil {
			return false
		}
		rec, err := tb.BuildRequestJoin(RequestJoinPayload{InviteKey: inv.key, Metadata: []byte("m")})
		if err != nil {
			return false
		}
		w.add(rec, "")
	case 4: // accept the pending request
		rr, err := w.lists["own"].aclState.Record(tpub)
		if err != nil {
			return false
		}
		rec, err := own.BuildRequestAccept(RequestAcceptPayload{RequestRecordId: rr.RecordId, Permissions: perm()})
		if err != nil {
			return false
		}
		w.add(rec, "")
	case 5: // direct add
		rec, err := own.BuildAccountsAdd(AccountsAddPayload{Additions: []AccountAdd{{Identity: tpub, Permissions: perm(), Metadata: []byte("m")}}})
		if err != nil {
			return false
		}
		w.add(rec, "")
	case 6: // remove, with rotation
		rk, mk, raw := vC05Fresh()
		rec, err := own.BuildAccountRemove(AccountRemovePayload{Identities: []crypto.PubKey{tpub}, Change: ReadKeyChangePayload{MetadataKey: mk, ReadKey: rk}})
		if err != nil {
			return false
		}
		w.add(rec, raw)
	case 7: // the account asks to leave
		rec, err := tb.BuildRequestRemove()
		if err != nil {
			return false
		}
		w.add(rec, "")
	case 8: // revoke the newest live invite together with a rotation
		inv := w.liveInvite(true)
		if inv == nil {
			inv = w.liveInvite(false)
		}
		if inv == nil {
			return false
		}
		rk, mk, raw := vC05Fresh()
		res, err := own.BuildBatchRequest(BatchRequestPayload{InviteRevokes: []string{inv.rec}, ReadKeyChange: &ReadKeyChangePayload{MetadataKey: mk, ReadKey: rk}})
		if err != nil {
			return false
		}
		inv.revokedAt = len(w.gens)
		w.add(res.Rec, raw)
	case 9: // stand-alone rotation
		rk, mk, raw := vC05Fresh()
		rec, err := own.BuildReadKeyChange(ReadKeyChangePayload{MetadataKey: mk, ReadKey: rk})
		if err != nil {
			return false
		}
		w.add(rec, raw)
	case 10: // permission change (also the route that would re-grant a removed account)
		p := []AclPermissions{AclPermissionsReader, AclPermissionsAdmin, AclPermissionsNone}[rt.Choose(3)]
		rec, err := own.BuildPermissionChange(PermissionChangePayload{Identity: tpub, Permissions: p})
		if err != nil {
			return false
		}
		w.add(rec, "")
	case 11: // revoke the newest live invite without rotation
		inv := w.liveInvite(true)
		if inv == nil {
			inv = w.liveInvite(false)
		}
		if inv == nil {
			return false
		}
		rec, err := own.BuildInviteRevoke(inv.rec)
		if err != nil {
			return false
		}
		inv.revokedAt = len(w.gens)
		w.add(rec, "")
	case 13: // the owner hands the space over to the account
		rec, err := own.BuildOwnershipChange(OwnershipChangePayload{NewOwner: tpub, OldOwnerPermissions: AclPermissionsAdmin})
		if err != nil {
			return false
		}
		w.add(rec, "")
	case 12: // one record that removes the account and revokes the newest live invite (what "stop sharing" sends)
		inv := w.liveInvite(true)
		if inv == nil {
			inv = w.liveInvite(false)
		}
		if inv == nil {
			return false
		}
		rk, mk, raw := vC05Fresh()
		res, err := own.BuildBatchRequest(BatchRequestPayload{
			Removals:      AccountRemovePayload{Identities: []crypto.PubKey{tpub}, Change: ReadKeyChangePayload{MetadataKey: mk, ReadKey: rk}},
			InviteRevokes: []string{inv.rec}})
		if err != nil {
			return false
		}
		inv.revokedAt = len(w.gens)
		w.add(res.Rec, raw)
	}
	return true
}

// every ciphertext the raw log carries
func vC05Blobs(log []*consensusproto.RawRecordWithId) (blobs [][]byte) {
	rkc := func(ch *aclrecordproto.AclReadKeyChange) {
		if ch == nil {
			return
		}
		for _, k := range ch.AccountKeys {
			blobs = append(blobs, k.EncryptedReadKey)
		}
		for _, k := range ch.InviteKeys {
			blobs = append(blobs, k.EncryptedReadKey)
		}
		blobs = append(blobs, ch.EncryptedOldReadKey, ch.EncryptedMetadataPrivKey)
	}
	for i, rec := range log {
		raw := &consensusproto.RawRecord{}
		rt.Assert(raw.UnmarshalVT(rec.Payload) == nil, "log-decodes")
		if i == 0 {
			root := &aclrecordproto.AclRoot{}
			rt.Assert(root.UnmarshalVT(raw.Payload) == nil, "root-decodes")
			blobs = append(blobs, root.EncryptedReadKey, root.EncryptedMetadataPrivKey)
			continue
		}
		r := &consensusproto.Record{}
		rt.Assert(r.UnmarshalVT(raw.Payload) == nil, "record-decodes")
		data := &aclrecordproto.AclData{}
		rt.Assert(data.UnmarshalVT(r.Data) == nil, "data-decodes")
		for _, c := range data.AclContent {
			if v := c.GetAccountsAdd(); v != nil {
				for _, a := range v.Additions {
					blobs = append(blobs, a.EncryptedReadKey)
				}
			}
			if v := c.GetRequestAccept(); v != nil {
				blobs = append(blobs, v.EncryptedReadKey)
			}
			if v := c.GetInviteJoin(); v != nil {
				blobs = append(blobs, v.EncryptedReadKey)
			}
			if v := c.GetInvite(); v != nil {
				blobs = append(blobs, v.EncryptedReadKey)
			}
			rkc(c.GetReadKeyChange())
			if v := c.GetAccountRemove(); v != nil {
				rkc(v.ReadKeyChange)
			}
		}
	}
	return
}

// the read keys a principal holding only the given private keys can derive from the raw log
func vC05Derivable(log []*consensusproto.RawRecordWithId, privIds ...string) map[string]bool {
	blobs := vC05Blobs(log)
	priv := map[string]bool{}
	for _, p := range privIds {
		priv[p] = true
	}
	sym := map[string]bool{}
	for changed := true; changed; {
		changed = false
		for _, b := range blobs {
			var pt []byte
			if len(b) > 2 && b[0] == 'E' && b[1] == '(' {
				end := 2
				for end < len(b) && b[end] != ')' {
					end++
				}
				if end < len(b) && priv[string(b[2:end])] {
					pt = b[end+1:]
				}
			} else if len(b) > 3+crypto.KeyBytes && b[0] == 'A' && b[1] == '(' {
				if sym[string(b[2:2+crypto.KeyBytes])] {
					pt = b[3+crypto.KeyBytes:]
				}
			}
			if pt == nil {
				continue
			}
			if k, err := crypto.UnmarshallAESKeyProto(pt); err == nil {
				raw, _ := k.Raw()
				if !sym[string(raw)] {
					sym[string(raw)] = true
					changed = true
				}
			} else if len(pt) > 5 && string(pt[:5]) == "priv:" {
				if !priv[string(pt[5:])] {
					priv[string(pt[5:])] = true
					changed = true
				}
			}
		}
	}
	return sym
}

func (w *vC05World) check() {
	for _, x := range w.accts {
		st := w.lists[x].aclState
		rt.Assert(len(st.readKeyChanges) == len(w.gens), "every-generation-is-listed")
		rt.Assert(len(st.keys) == len(w.gens), "one-key-entry-per-generation")
		rt.Assert(w.lists[x].aclState.Permissions(&vPub{id: x}) == w.perm(x), "views-agree-on-permissions")
		derivable := vC05Derivable(w.log, x)
		if !w.perm(x).NoPermissions() {
			for i, rid := range st.readKeyChanges {
				k := st.keys[rid].ReadKey
				rt.Assert(k != nil, "member-holds-every-read-key-generation")
				if k != nil {
					raw, _ := k.Raw()
					rt.Assert(string(raw) == w.gens[i], "member-holds-the-right-key")
				}
			}
			cur, err := st.CurrentReadKey()
			rt.Assert(err == nil && cur != nil, "member-has-the-current-read-key")
			continue
		}
		for i, rid := range st.readKeyChanges {
			if i < w.lostAt[x] {
				continue
			}
			rt.Assert(st.keys[rid].ReadKey == nil, "non-member-view-holds-no-later-generation")
			rt.Assert(!derivable[w.gens[i]], "non-member-cannot-derive-a-later-generation")
		}
	}
	// the holder of a revoked invite link, and a stranger
	for _, inv := range w.invites {
		if inv.revokedAt < 0 {
			continue
		}
		derivable := vC05Derivable(w.log, inv.key.id)
		for i := inv.revokedAt; i < len(w.gens); i++ {
			rt.Assert(!derivable[w.gens[i]], "revoked-invite-cannot-derive-a-later-generation")
		}
	}
	rt.Assert(len(vC05Derivable(w.log, "stranger")) == 0, "stranger-derives-nothing")
}

// VerifC05Keys: after every history of n membership operations built by the real record builder and applied to each
// account's own list, members hold every read key generation and non-members (and revoked invite links) can derive
// none introduced since they lost access.
func VerifC05Keys() {
	n := rt.Param("n", 2)
	vC05Install()
	w := vC05NewWorld()
	w.check()
	for i := 0; i < n; i++ {
		op := rt.Choose(14)
		tgt := "a"
		switch op {
		case 2, 3, 4, 5, 6, 7, 10, 12, 13:
			tgt = []string{"a", "b"}[rt.Choose(2)]
		}
		if !w.step(op, tgt) {
			rt.Reach("refused")
			return
		}
		w.check()
	}
	rt.Reach("history")
}
