//go:build verif

package objecttree

import (
	"context"

	"github.com/anyproto/any-sync/commonspace/object/tree/treechangeproto"
	rt "github.com/anyproto/any-sync/internal/verifrt"
)

// VerifC09Paths: commonSnapshotForTwoPaths on root-anchored snapshot chains.
func VerifC09Paths() {
	maxLen := rt.Param("len", 3)
	// universe: a snapshot tree over 5 ids given by a parent table; a path is the chain
	// from some node up to the root (index 0), so equal elements have equal suffixes
	parent := []int{-1, 0, 0, 1, 2}
	ids := rt.Atoms(5, 2)
	mk := func() []string {
		start := rt.Choose(5)
		var p []string
		for n := start; n >= 0; n = parent[n] {
			p = append(p, ids[n])
		}
		_ = maxLen
		return p
	}
	our, their := mk(), mk()
	res, err := commonSnapshotForTwoPaths(our, their)
	// reference: the element of `our` with the smallest index that occurs in `their`
	want := ""
	for _, o := range our {
		if vIndexOf(their, o) >= 0 {
			want = o
			break
		}
	}
	rt.Assert(err == nil, "paths-of-one-tree-always-share-the-root")
	rt.Assert(res == want, "common-snapshot-is-first-shared-element")
	// hostile paths (no structure): never a panic, result is common to both or an error
	n1, n2 := rt.Choose(maxLen+1), rt.Choose(maxLen+1)
	var a, b []string
	for i := 0; i < n1; i++ {
		a = append(a, ids[rt.Choose(5)])
	}
	for i := 0; i < n2; i++ {
		b = append(b, ids[rt.Choose(3)])
	}
	r2, err2 := commonSnapshotForTwoPaths(a, b)
	if err2 == nil {
		rt.Assert(vIndexOf(a, r2) >= 0 && vIndexOf(b, r2) >= 0, "result-is-common-to-both-paths")
	} else {
		rt.Assert(err2 == ErrNoCommonSnapshot, "only-no-common-snapshot-error")
	}
	rt.Reach("paths")
}

// VerifC09Loader: the batches streamed in answer to (heads, snapshot path) are
// complete, causally ordered, size-bounded and announce consistent heads.
func VerifC09Loader() {
	n := rt.Param("n", 3)
	shape := vC06ChooseShape(n)
	ids := rt.Atoms(n+2, 2) // last id is unknown to the responder
	b := newVBuilder()
	ctx := context.Background()
	resp, err := vNewReplica(ids[0], b, "w")
	rt.Assert(err == nil, "open")
	chs := shape.mkChanges(ids[:n+1])
	sizes := make([]int, n+1)
	sizes[0] = 1
	var raws []*treechangeproto.RawTreeChangeWithId
	for j := 1; j <= n; j++ {
		sizes[j] = []int{1, 3}[rt.Choose(2)]
		raws = append(raws, b.register(chs[j], sizes[j]))
	}
	_, err = resp.ot.AddRawChanges(ctx, RawChangesPayload{NewHeads: nil, RawChanges: raws})
	rt.Assert(err == nil, "responder-filled")
	rt.Assert(len(resp.store.changes) == n+1, "responder-has-everything")

	// requester heads: a subset of the known ids, optionally with an id the responder never saw
	var heads []string
	known := make([]bool, n+1)
	for j := 0; j <= n; j++ {
		if rt.Choose(2) == 1 {
			heads = append(heads, ids[j])
			known[j] = true
		}
	}
	switch rt.Choose(3) { // the unknown head after or before the known ones (seed C09-k: the filter must skip it, not stop at it)
	case 1:
		heads = append(heads, ids[n+1])
	case 2:
		heads = append([]string{ids[n+1]}, heads...)
	}
	// what the requester already has: ancestors-or-self of its known heads
	has := make([]bool, n+1)
	for j := 0; j <= n; j++ {
		for h := 0; h <= n; h++ {
			if known[h] && shape.anc[h][j] {
				has[j] = true
			}
		}
	}
	theirPath := []string{ids[0]}
	if rt.Choose(2) == 1 {
		theirPath = nil // empty request: the whole tree
		heads = nil
		for j := range has {
			has[j] = false
		}
	}
	maxSize := rt.Int()
	loader, err := resp.ot.ChangesAfterCommonSnapshotLoader(theirPath, heads)
	rt.Assert(err == nil, "loader-created")
	if err != nil {
		return
	}
	var sent []string
	sentIdx := make([]bool, n+1)
	for round := 0; round < n+3; round++ {
		batch, err := loader.NextBatch(maxSize)
		rt.Assert(err == nil, "next-batch")
		if len(batch.Batch) == 0 {
			break
		}
		total := 0
		for _, r := range batch.Batch {
			j := vIndexOf(ids, r.Id)
			rt.Assert(j >= 0 && j <= n, "only-stored-changes-sent")
			rt.Assert(!sentIdx[j], "each-change-sent-once")
			rt.Assert(!has[j], "nothing-the-requester-has-is-sent")
			// causal order: all parents are already at the requester (had or sent before)
			for _, p := range shape.parents[j] {
				rt.Assert(has[p] || sentIdx[p], "parents-before-children")
			}
			sentIdx[j] = true
			sent = append(sent, r.Id)
			total += len(r.RawChange)
		}
		rt.Assert(rt.AnyOf(total < maxSize, len(batch.Batch) == 1), "batch-within-limit-or-single-change")
		if len(batch.Batch) > 1 {
			rt.Reach("multi-change-batch")
		}
		if round > 0 {
			rt.Reach("several-batches")
		}
		// announced heads are consistent with what has been sent: each is a change the requester
		// has by now, they form an antichain, and together they cover everything sent so far
		for _, h := range batch.Heads {
			j := vIndexOf(ids, h)
			rt.Assert(j >= 0 && j <= n && (has[j] || sentIdx[j]), "announced-heads-are-held-changes")
			for _, h2 := range batch.Heads {
				k := vIndexOf(ids, h2)
				if j >= 0 && k >= 0 && j <= n && k <= n && j != k {
					rt.Assert(!shape.anc[j][k], "announced-heads-form-an-antichain")
				}
			}
		}
		for j := 0; j <= n; j++ {
			if !sentIdx[j] {
				continue
			}
			covered := false
			for _, h := range batch.Heads {
				k := vIndexOf(ids, h)
				if k >= 0 && k <= n && shape.anc[k][j] {
					covered = true
				}
			}
			rt.Assert(covered, "announced-heads-cover-everything-sent")
		}
	}
	for j := 0; j <= n; j++ {
		rt.Assert(sentIdx[j] == !has[j], "response-complete")
	}
	rt.Reach("loaded")
}


// VerifC09EmptyRequest: a request that names no heads and no snapshot path is answered with the whole tree from
// its original root on - also when the responder has made snapshots since (its own path then starts at the
// latest one) - in causal order, each change once, within the size limit.
func VerifC09EmptyRequest() {
	n := rt.Param("n", 3)
	ids := rt.Atoms(n+1, 2)
	b := newVBuilder()
	b.nextIds = ids[1:]
	ctx := context.Background()
	resp, err := vNewReplica(ids[0], b, "w")
	rt.Assert(err == nil, "open")
	for j := 1; j <= n; j++ {
		_, err := resp.ot.AddContent(ctx, SignableChangeContent{Data: []byte("d"), Key: &vTreeKey{id: "w"}, IsSnapshot: rt.Bool(), Timestamp: 1, DataType: "t"})
		rt.Assert(err == nil, "local-add")
	}
	maxSize := []int{1, 2, 1 << 20}[rt.Choose(3)]
	loader, err := resp.ot.ChangesAfterCommonSnapshotLoader(nil, nil)
	rt.Assert(err == nil, "loader-created")
	if err != nil {
		return
	}
	var sent []string
	for round := 0; round < n+3; round++ {
		batch, err := loader.NextBatch(maxSize)
		rt.Assert(err == nil, "next-batch")
		if len(batch.Batch) == 0 {
			break
		}
		for _, r := range batch.Batch {
			sent = append(sent, r.Id)
		}
	}
	rt.Assert(len(sent) == n+1, "whole-tree-is-sent")
	for j := 0; j <= n && j < len(sent); j++ {
		rt.Assert(sent[j] == ids[j], "from-the-original-root-in-causal-order")
	}
	rt.Reach("empty-request")
}
