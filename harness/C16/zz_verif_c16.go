//go:build verif

package ocache

import (
	"context"
	"errors"
	"time"

	rt "github.com/anyproto/any-sync/internal/verifrt"
)

// The real object cache under concurrent operations.  Every operation runs in its own goroutine.  The harness owns
// the blocking points the property names - operation start, load end (with its verdict), close end, try-close
// verdict - as gates: a goroutine reaching one waits there until the controller releases it.  The controller
// (entry goroutine) repeatedly waits until nothing can run any more, then releases one waiting gate of its choice:
// the order in which operations pass their blocking points is a sequence of recorded choices, which the native
// replay follows exactly.  Under the engine's scheduler (-sched) the interleaving of whatever runs between two
// releases (lock acquisitions, channel operations inside the cache) is explored as well.

type vC16Inst struct {
	id          string
	n           int
	loadEnded   bool
	loadFailed  bool
	closeStarts int
	closeEnds   int
}

type vC16Gate struct {
	kind    string // start, load, close, tryclose
	key     int    // operation index (start) or instance number
	ch      chan struct{}
	verdict bool // load: failed; tryclose: busy
	fail    bool // tryclose: the object reports an error and stays open
}

type vC16World struct {
	insts   []*vC16Inst
	waiting []*vC16Gate
	removed map[int]bool // instances whose removal has completed (an operation returned ok for them)
	done    int
	closed  bool // the cache's Close has returned
}

// wait blocks the calling goroutine at a gate until the controller releases it; returns the verdict it was given
func (w *vC16World) wait(kind string, key int) bool {
	return w.waitGate(kind, key).verdict
}

func (w *vC16World) waitGate(kind string, key int) *vC16Gate {
	g := &vC16Gate{kind: kind, key: key, ch: make(chan struct{})}
	rt.Atomic(func() { w.waiting = append(w.waiting, g) })
	<-g.ch
	return g
}

// live: loading or loaded, and not yet closed
func (w *vC16World) live(id string) int {
	n := 0
	for _, i := range w.insts {
		if i.id == id && !i.loadFailed && i.closeEnds == 0 {
			n++
		}
	}
	return n
}

type vC16Obj struct {
	w    *vC16World
	inst *vC16Inst
}

func (o *vC16Obj) closeNow() {
	rt.Atomic(func() {
		rt.Assert(o.inst.closeStarts == 0, "no-instance-is-closed-twice")
		o.inst.closeStarts++
	})
	o.w.wait("close", o.inst.n) // closing takes time
	rt.Atomic(func() { o.inst.closeEnds++ })
}

func (o *vC16Obj) Close() error {
	o.closeNow()
	return nil
}

func (o *vC16Obj) TryClose(objectTTL time.Duration) (bool, error) {
	g := o.w.waitGate("tryclose", o.inst.n)
	if g.fail {
		return false, errors.New("verif: try-close failed")
	}
	if g.verdict {
		return false, nil
	}
	o.closeNow()
	return true, nil
}

func (w *vC16World) load(ctx context.Context, id string) (Object, error) {
	var inst *vC16Inst
	rt.Atomic(func() {
		rt.Assert(w.live(id) == 0, "a-load-starts-only-when-no-instance-of-the-id-is-loading-or-open")
		inst = &vC16Inst{id: id, n: len(w.insts)}
		w.insts = append(w.insts, inst)
	})
	fail := w.wait("load", inst.n) // loading takes time
	rt.Atomic(func() {
		if fail {
			inst.loadFailed = true
		} else {
			inst.loadEnded = true
		}
	})
	if fail {
		return nil, errors.New("verif: load failed")
	}
	return &vC16Obj{w: w, inst: inst}, nil
}

func (w *vC16World) returned(v Object, err error, snapshot map[int]bool) {
	if err != nil || v == nil {
		return
	}
	o := v.(*vC16Obj)
	rt.Atomic(func() {
		rt.Assert(o.inst.loadEnded, "an-instance-handed-out-had-finished-loading")
		rt.Assert(!snapshot[o.inst.n], "a-lookup-after-a-completed-removal-does-not-return-the-removed-instance")
	})
}

func (w *vC16World) snapshot() map[int]bool {
	s := map[int]bool{}
	rt.Atomic(func() {
		for k, v := range w.removed {
			s[k] = v
		}
	})
	return s
}

func (w *vC16World) current(c *oCache, id string) *vC16Obj {
	c.mu.Lock()
	defer c.mu.Unlock()
	if e, ok := c.data[id]; ok && e.value != nil {
		return e.value.(*vC16Obj)
	}
	return nil
}

func (w *vC16World) finish(f func()) {
	rt.Atomic(func() {
		if f != nil {
			f()
		}
		w.done++
	})
}

// the controller: release gates one at a time, each time after everything that could run has run
func (w *vC16World) drive(maxRounds int) (drained bool) {
	for round := 0; round < maxRounds; round++ {
		rt.Settle()
		type option struct {
			g       *vC16Gate
			verdict bool
			fail    bool
		}
		var opts []option
		rt.Atomic(func() {
			// a deterministic order of the waiting gates: by kind, then key
			gs := append([]*vC16Gate{}, w.waiting...)
			for i := 1; i < len(gs); i++ {
				for j := i; j > 0 && (gs[j].kind < gs[j-1].kind || (gs[j].kind == gs[j-1].kind && gs[j].key < gs[j-1].key)); j-- {
					gs[j], gs[j-1] = gs[j-1], gs[j]
				}
			}
			for _, g := range gs {
				opts = append(opts, option{g, false, false})
				if g.kind == "load" || g.kind == "tryclose" {
					opts = append(opts, option{g, true, false})
				}
				if g.kind == "tryclose" && rt.Param("tcerr", 1) == 1 {
					opts = append(opts, option{g, false, true})
				}
			}
		})
		if len(opts) == 0 {
			return true
		}
		o := opts[rt.Choose(len(opts))]
		rt.Atomic(func() {
			for i, g := range w.waiting {
				if g == o.g {
					w.waiting = append(w.waiting[:i:i], w.waiting[i+1:]...)
					break
				}
			}
			o.g.verdict = o.verdict
			o.g.fail = o.fail
		})
		close(o.g.ch)
	}
	rt.Settle()
	empty := false
	rt.Atomic(func() { empty = len(w.waiting) == 0 })
	return empty
}

// VerifC16Cache: n concurrent operations on one or two ids; every order in which they pass their blocking points
// (within the round bound), every interleaving in between (within the preemption bound).
func VerifC16Cache() {
	n := rt.Param("ops", 2)
	nids := rt.Param("ids", 1)
	rounds := rt.Param("rounds", 8)
	ids := []string{"a", "b"}[:nids]
	w := &vC16World{removed: map[int]bool{}}
	c := New(w.load, WithTTL(time.Minute), WithGCPeriod(0)).(*oCache)
	c.timeNow = func() time.Time { return time.Now().Add(time.Hour) } // everything idle is expired for the GC
	ctx := context.Background()
	// initial state: the cache may already hold an object
	if rt.Bool() {
		inst := &vC16Inst{id: "a", n: 0, loadEnded: true}
		w.insts = append(w.insts, inst)
		rt.Assert(c.Add("a", &vC16Obj{w: w, inst: inst}) == nil, "initial-add")
	}
	for k := 0; k < n; k++ {
		op := rt.Choose(8)
		if rt.Param("alphabet", 0) == 1 {
			// lookups, the two closers that try first, and a removal whose context the caller gives up
			op = []int{0, 3, 5, 8}[rt.Choose(4)]
		}
		if rt.Param("alphabet", 0) == 2 {
			op = []int{3, 8, 0}[k%3]
		}
		id := ids[rt.Choose(len(ids))]
		k := k
		switch op {
		case 8:
			go func() {
				w.wait("start", k)
				// a context of the harness's own: the encoder models context.WithCancel as never cancelling
				cctx := &vC16Ctx{Context: ctx, done: make(chan struct{})}
				go func() {
					w.wait("cancel", k) // the caller loses patience whenever the controller says so
					rt.Atomic(func() { cctx.gone = true })
					close(cctx.done)
					rt.Reach("cancelled")
				}()
				cur := w.current(c, id)
				ok, rerr := c.Remove(cctx, id)
				if rerr == context.Canceled {
					rt.Reach("remove-gave-up")
				}
				w.finish(func() {
					if ok && cur != nil && cur.inst.closeEnds > 0 {
						w.removed[cur.inst.n] = true
					}
				})
			}()
		case 0:
			go func() {
				w.wait("start", k)
				snap := w.snapshot()
				v, err := c.Get(ctx, id)
				w.returned(v, err, snap)
				w.finish(nil)
			}()
		case 1:
			go func() {
				w.wait("start", k)
				snap := w.snapshot()
				v, err := c.Pick(ctx, id)
				w.returned(v, err, snap)
				w.finish(nil)
			}()
		case 2:
			go func() {
				w.wait("start", k)
				cur := w.current(c, id)
				ok, _ := c.Remove(ctx, id)
				w.finish(func() {
					if ok && cur != nil && cur.inst.closeEnds > 0 {
						w.removed[cur.inst.n] = true
					}
				})
			}()
		case 3:
			go func() {
				w.wait("start", k)
				cur := w.current(c, id)
				ok, _ := c.TryRemove(id)
				w.finish(func() {
					if ok && cur != nil && cur.inst.closeEnds > 0 {
						w.removed[cur.inst.n] = true
					}
				})
			}()
		case 4:
			go func() {
				w.wait("start", k)
				cur := w.current(c, id)
				ok := false
				if cur != nil {
					ok, _ = c.RemoveSame(ctx, id, cur)
				}
				w.finish(func() {
					if ok {
						rt.Assert(cur.inst.closeEnds == 1, "remove-same-closed-exactly-the-given-instance")
						w.removed[cur.inst.n] = true
					}
				})
			}()
		case 5:
			go func() {
				w.wait("start", k)
				c.GC()
				w.finish(nil)
			}()
		case 6:
			go func() {
				w.wait("start", k)
				err := c.Close()
				w.finish(func() {
					if err == nil {
						w.closed = true
					}
				})
			}()
		case 7:
			go func() {
				w.wait("start", k)
				inst := &vC16Inst{id: id, n: -1, loadEnded: true}
				err := c.Add(id, &vC16Obj{w: w, inst: inst})
				w.finish(func() {
					if err == nil {
						rt.Assert(w.live(id) == 0, "an-object-is-added-only-when-no-instance-of-the-id-is-loading-or-open")
						inst.n = len(w.insts)
						w.insts = append(w.insts, inst)
					}
				})
			}()
		}
	}
	drained := w.drive(rounds)
	rt.Atomic(func() {
		if drained {
			// nobody waits at a harness gate any more: whoever has not finished is stuck inside the cache
			rt.Assert(w.done == n, "no-operation-blocks-forever")
			rt.Reach("drained")
		}
		for _, id := range ids {
			rt.Assert(w.live(id) <= 1, "at-most-one-live-instance-per-id")
		}
		for _, i := range w.insts {
			rt.Assert(i.closeStarts <= 1 && i.closeEnds <= i.closeStarts, "no-instance-is-closed-twice")
		}
		if w.closed && drained {
			for _, i := range w.insts {
				if i.loadEnded {
					rt.Assert(i.closeEnds == 1, "no-instance-is-left-open-once-the-cache-has-shut-down")
				}
			}
		}
	})
	rt.Reach("cache")
}

type vC16Ctx struct {
	context.Context
	done chan struct{}
	gone bool
}

func (c *vC16Ctx) Done() <-chan struct{} { return c.done }
func (c *vC16Ctx) Err() error {
	var g bool
	rt.Atomic(func() { g = c.gone })
	if g {
		return context.Canceled
	}
	return nil
}

// VerifC16CtxProbe: the encoder's scheduler wakes a goroutine parked on ctx.Done() when the context is cancelled
// (a self-test of the model the cancellable Remove relies on).
func VerifC16CtxProbe() {
	ctx := &vC16Ctx{Context: context.Background(), done: make(chan struct{})}
	cancel := func() { rt.Atomic(func() { ctx.gone = true }); close(ctx.done) }
	woke := false
	ch := make(chan struct{})
	go func() {
		select {
		case <-ch:
		case <-ctx.Done():
			rt.Atomic(func() { woke = true })
		}
	}()
	rt.Settle()
	cancel()
	rt.Settle()
	var w bool
	rt.Atomic(func() { w = woke })
	rt.Assert(w, "ctx-cancel-wakes-a-waiter")
	rt.Reach("probed")
}
