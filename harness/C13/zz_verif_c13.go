//go:build verif

package spacepayloads

import (
	"errors"
	"strconv"
	"time"

	libcrypto "github.com/libp2p/go-libp2p/core/crypto"

	"github.com/anyproto/any-sync/commonspace/object/acl/aclrecordproto"
	"github.com/anyproto/any-sync/commonspace/object/tree/treechangeproto"
	"github.com/anyproto/any-sync/commonspace/spacestorage"
	"github.com/anyproto/any-sync/commonspace/spacesyncproto"
	"github.com/anyproto/any-sync/consensus/consensusproto"
	rt "github.com/anyproto/any-sync/internal/verifrt"
	"github.com/anyproto/any-sync/nodeconf"
	"github.com/anyproto/any-sync/util/crypto"
)

type vC13Pub struct{ id string }

func (k *vC13Pub) Equals(o crypto.Key) bool {
	p, ok := o.(*vC13Pub)
	return ok && p.id == k.id
}
func (k *vC13Pub) Raw() ([]byte, error)             { return []byte("raw:" + k.id), nil }
func (k *vC13Pub) Encrypt(m []byte) ([]byte, error) { return m, nil }
func (k *vC13Pub) Verify(d []byte, s []byte) (bool, error) {
	return rt.UFBool("verify", k.id, d, s), nil
}
func (k *vC13Pub) Marshall() ([]byte, error)          { return []byte(k.id), nil }
func (k *vC13Pub) Storage() []byte                    { return []byte(k.id) }
func (k *vC13Pub) Account() string                    { return k.id }
func (k *vC13Pub) Network() string                    { return k.id }
func (k *vC13Pub) PeerId() string                     { return k.id }
func (k *vC13Pub) LibP2P() (libcrypto.PubKey, error)  { return nil, errors.New("n/a") }

type vC13Priv struct{ id string }

func (k *vC13Priv) Equals(o crypto.Key) bool             { return false }
func (k *vC13Priv) Raw() ([]byte, error)                 { return []byte(k.id), nil }
func (k *vC13Priv) Decrypt(m []byte) ([]byte, error)     { return m, nil }
func (k *vC13Priv) Sign(d []byte) ([]byte, error)        { return []byte("sig"), nil }
func (k *vC13Priv) GetPublic() crypto.PubKey             { return &vC13Pub{id: k.id} }
func (k *vC13Priv) Marshall() ([]byte, error)            { return []byte(k.id), nil }
func (k *vC13Priv) LibP2P() (libcrypto.PrivKey, error)   { return nil, errors.New("n/a") }

type vC13Space struct {
	header   *spacesyncproto.RawSpaceHeaderWithId
	acl      *consensusproto.RawRecordWithId
	settings *treechangeproto.RawTreeChangeWithId
	hdrInner []byte
	hdrSig   []byte
	repKey   uint64
}

// VerifC13Validate: acceptance implies every hash, signature and cross-reference check.
func VerifC13Validate() {
	rt.Replace("github.com/anyproto/any-sync/util/cidutil.VerifyCid", func(data []byte, id string) bool {
		return rt.UFBool("cid", data, id)
	})
	rt.Replace("github.com/anyproto/any-sync/util/crypto.UnmarshalEd25519PublicKeyProto", func(b []byte) (crypto.PubKey, error) {
		if len(b) == 0 {
			return nil, errors.New("verif: empty key")
		}
		return &vC13Pub{id: string(b)}, nil
	})
	v1 := rt.Choose(2) == 1
	ver := spacesyncproto.SpaceHeaderVersion_SpaceHeaderVersion0
	if v1 {
		ver = spacesyncproto.SpaceHeaderVersion_SpaceHeaderVersion1
	}
	repKey := []uint64{0, 35, 36, 1295, 46655}[rt.Choose(5)]
	// the id the header travels under: an arbitrary short string
	hdrId := rt.String(rt.Choose(6))

	// two candidate spaces' parts; the payload under test takes each part from either
	mkAcl := func(spaceId string, n string) (*consensusproto.RawRecordWithId, []byte, []byte, []byte) {
		root := &aclrecordproto.AclRoot{Identity: []byte("own" + n), MasterKey: []byte("mk" + n), SpaceId: spaceId, IdentitySignature: rt.Bytes(1)}
		payload, _ := root.MarshalVT()
		sig := rt.Bytes(1)
		raw, _ := (&consensusproto.RawRecord{Payload: payload, Signature: sig}).MarshalVT()
		return &consensusproto.RawRecordWithId{Payload: raw, Id: "acl" + n}, payload, sig, root.IdentitySignature
	}
	mkSettings := func(spaceId, aclHead string, n string) (*treechangeproto.RawTreeChangeWithId, []byte, []byte) {
		payload, _ := (&treechangeproto.RootChange{AclHeadId: aclHead, SpaceId: spaceId, Identity: []byte("own" + n)}).MarshalVT()
		sig := rt.Bytes(1)
		raw, _ := (&treechangeproto.RawTreeChange{Payload: payload, Signature: sig}).MarshalVT()
		return &treechangeproto.RawTreeChangeWithId{RawChange: raw, Id: "set" + n}, payload, sig
	}
	aclSpace := []string{hdrId, "other.0"}[rt.Choose(2)]
	setSpace := []string{hdrId, "other.0"}[rt.Choose(2)]
	acl, aclPayload, aclSig, idSig := mkAcl(aclSpace, "1")
	setAclHead := []string{"acl1", "aclX"}[rt.Choose(2)]
	settings, setPayload, setSig := mkSettings(setSpace, setAclHead, "1")

	hdr := &spacesyncproto.SpaceHeader{Identity: []byte("own1"), ReplicationKey: repKey, Version: ver, SpaceType: "t"}
	hdrAclMatches, hdrSetMatches := true, true
	if v1 {
		hdr.AclPayload = acl.Payload
		hdr.SettingPayload = settings.RawChange
		// the embedded roots: these ones, other bytes, or none at all (a header that embeds nothing binds nothing)
		switch rt.Choose(3) {
		case 1:
			hdr.AclPayload = []byte("otheracl")
			hdrAclMatches = false
		case 2:
			hdr.AclPayload = nil
			hdrAclMatches = false
		}
		switch rt.Choose(3) {
		case 1:
			hdr.SettingPayload = []byte("otherset")
			hdrSetMatches = false
		case 2:
			hdr.SettingPayload = nil
			hdrSetMatches = false
		}
	}
	hdrInner, _ := hdr.MarshalVT()
	hdrSig := rt.Bytes(1)
	rawHdr, _ := (&spacesyncproto.RawSpaceHeader{SpaceHeader: hdrInner, Signature: hdrSig}).MarshalVT()
	payload := spacestorage.SpaceStorageCreatePayload{
		AclWithId:           acl,
		SpaceHeaderWithId:   &spacesyncproto.RawSpaceHeaderWithId{RawHeader: rawHdr, Id: hdrId},
		SpaceSettingsWithId: settings,
	}
	err := ValidateSpaceStorageCreatePayload(payload)
	if err != nil {
		rt.Reach("rejected")
		return
	}
	rt.Reach("accepted")
	// the id splits at its only '.', the prefix is the header's content hash, the suffix the replication key
	dot := -1
	for i := 0; i < len(hdrId); i++ {
		if hdrId[i] == '.' && dot < 0 {
			dot = i
		}
	}
	rt.Assert(dot >= 0, "space-id-has-separator")
	if dot < 0 {
		return
	}
	rt.Assert(rt.UFBool("cid", rawHdr, hdrId[:dot]), "space-id-prefix-is-header-hash")
	rt.Assert(hdrId[dot+1:] == strconv.FormatUint(repKey, 36), "space-id-suffix-is-replication-key")
	rt.Assert(nodeconf.ReplKey(hdrId) == strconv.FormatUint(repKey, 36), "replication-key-rule-agrees-with-nodeconf")
	rt.Assert(rt.UFBool("verify", "own1", hdrInner, hdrSig), "header-signed-by-named-identity")
	rt.Assert(rt.UFBool("cid", acl.Payload, acl.Id), "acl-id-is-content-hash")
	rt.Assert(rt.UFBool("verify", "own1", aclPayload, aclSig), "acl-root-signed-by-author")
	rt.Assert(rt.UFBool("verify", "mk1", []byte("raw:own1"), idSig), "identity-signed-by-master-key")
	rt.Assert(rt.UFBool("cid", settings.RawChange, settings.Id), "settings-id-is-content-hash")
	rt.Assert(rt.UFBool("verify", "own1", setPayload, setSig), "settings-root-signed")
	rt.Assert(setAclHead == acl.Id, "settings-root-cites-this-acl-root")
	if v1 {
		rt.Assert(hdrAclMatches && hdrSetMatches, "v1-header-embeds-exactly-these-roots")
		rt.Reach("accepted-v1")
	} else {
		rt.Assert(aclSpace == hdrId && setSpace == hdrId, "v0-roots-name-this-space")
		rt.Reach("accepted-v0")
	}
}

// VerifC13Symmetric: both parties of a one-to-one space compute the same writer list.
func VerifC13Symmetric() {
	a := &vC13Pub{id: rt.String(3)}
	b := &vC13Pub{id: rt.String(3)}
	shared := &vC13Priv{id: "shared"}
	i1, err1 := makeOneToOneInfo(shared, a, b)
	i2, err2 := makeOneToOneInfo(shared, b, a)
	rt.Assert(err1 == nil && err2 == nil, "one-to-one-info-built")
	rt.Assert(string(i1.Owner) == string(i2.Owner), "owner-symmetric")
	rt.Assert(len(i1.Writers) == 2 && len(i2.Writers) == 2, "two-writers")
	rt.Assert(string(i1.Writers[0]) == string(i2.Writers[0]) && string(i1.Writers[1]) == string(i2.Writers[1]), "writers-order-symmetric")
	rt.Reach("symmetric")
}

// VerifC13Repeat: validation has no memory: after a payload of a space has been accepted, a payload carrying the
// same space id with another header (other bytes, which cannot hash to that id; or a signature that does not
// verify) is still rejected - on the create path and on the bare header check.
func VerifC13Repeat() {
	rt.Replace("github.com/anyproto/any-sync/util/cidutil.VerifyCid", func(data []byte, id string) bool {
		return rt.UFBool("cid", data, id)
	})
	rt.Replace("github.com/anyproto/any-sync/util/crypto.UnmarshalEd25519PublicKeyProto", func(b []byte) (crypto.PubKey, error) {
		if len(b) == 0 {
			return nil, errors.New("verif: empty key")
		}
		return &vC13Pub{id: string(b)}, nil
	})
	v1 := rt.Bool()
	ver := spacesyncproto.SpaceHeaderVersion_SpaceHeaderVersion0
	if v1 {
		ver = spacesyncproto.SpaceHeaderVersion_SpaceHeaderVersion1
	}
	hdrId := "hdr.z"
	build := func(identity string, sig []byte) (spacestorage.SpaceStorageCreatePayload, []byte) {
		aclRoot := &aclrecordproto.AclRoot{Identity: []byte(identity), MasterKey: []byte("mk"), SpaceId: hdrId, IdentitySignature: []byte{1}}
		aclPayload, _ := aclRoot.MarshalVT()
		aclRaw, _ := (&consensusproto.RawRecord{Payload: aclPayload, Signature: []byte{2}}).MarshalVT()
		acl := &consensusproto.RawRecordWithId{Payload: aclRaw, Id: "acl" + identity}
		setPayload, _ := (&treechangeproto.RootChange{AclHeadId: acl.Id, SpaceId: hdrId, Identity: []byte(identity)}).MarshalVT()
		setRaw, _ := (&treechangeproto.RawTreeChange{Payload: setPayload, Signature: []byte{3}}).MarshalVT()
		settings := &treechangeproto.RawTreeChangeWithId{RawChange: setRaw, Id: "set" + identity}
		hdr := &spacesyncproto.SpaceHeader{Identity: []byte(identity), ReplicationKey: 35, Version: ver, SpaceType: "t"}
		if v1 {
			hdr.AclPayload, hdr.SettingPayload = acl.Payload, settings.RawChange
		}
		inner, _ := hdr.MarshalVT()
		rawHdr, _ := (&spacesyncproto.RawSpaceHeader{SpaceHeader: inner, Signature: sig}).MarshalVT()
		return spacestorage.SpaceStorageCreatePayload{AclWithId: acl, SpaceHeaderWithId: &spacesyncproto.RawSpaceHeaderWithId{RawHeader: rawHdr, Id: hdrId}, SpaceSettingsWithId: settings}, rawHdr
	}
	first, rawFirst := build("own1", []byte{7})
	rt.Assume(ValidateSpaceStorageCreatePayload(first) == nil) // a genuine payload: every hash and signature in it verifies
	rt.Reach("first-accepted")
	// the same id again, with another header: other author and roots, or the same header with another signature
	var second spacestorage.SpaceStorageCreatePayload
	var rawSecond []byte
	if rt.Bool() {
		second, rawSecond = build("own2", []byte{7})
	} else {
		second, rawSecond = build("own1", []byte{8})
	}
	rt.Assume(!rt.UFBool("cid", rawSecond, "hdr")) // other bytes do not hash to the id of the first header
	_ = rawFirst
	rt.Assert(ValidateSpaceStorageCreatePayload(second) != nil, "another-header-under-an-accepted-id-is-rejected-on-create")
	_, err := ValidateSpaceHeader(second.SpaceHeaderWithId, nil, nil, nil)
	rt.Assert(err != nil, "another-header-under-an-accepted-id-is-rejected-on-header-check")
	rt.Reach("repeat")
}

// VerifC13Derive: the two parties of a one-to-one space, deriving at different instants (the engine's time.Now
// advances with every call; the native replay sleeps nothing but the derivation reads no clock on a tree where the
// property holds), and one party deriving again later, obtain byte-identical ACL root, settings root, header and
// space id, and what they derive passes the create-payload validation.  The shared key agreement is a model
// (same key for (a,B) and (b,A)); hashes are an injective interning of the bytes.
func VerifC13Derive() {
	cids := map[string]string{}
	cid := func(data []byte) string {
		s := string(data)
		if v, ok := cids[s]; ok {
			return v
		}
		v := "cid" + strconv.Itoa(len(cids))
		cids[s] = v
		return v
	}
	rt.Replace("github.com/anyproto/any-sync/util/cidutil.VerifyCid", func(data []byte, id string) bool { return cid(data) == id })
	rt.Replace("github.com/anyproto/any-sync/util/cidutil.NewCidFromBytes", func(data []byte) (string, error) { return cid(data), nil })
	rt.Replace("github.com/anyproto/any-sync/util/crypto.GenerateSharedKey", func(a crypto.PrivKey, b crypto.PubKey, path string) (crypto.PrivKey, error) {
		return &vC13Priv{id: "shared"}, nil
	})
	a, b := &vC13Priv{id: "A"}, &vC13Priv{id: "B"}
	typ := []string{SpaceTypeOneToOne, SpaceTypeOneToOneAny}[rt.Choose(2)]
	pA, errA := StoragePayloadForOneToOneSpaceWithType(a, b.GetPublic(), typ)
	time.Sleep(1100 * time.Millisecond) // native replay: the parties derive in different seconds (the engine's clock advances per reading)
	pB, errB := StoragePayloadForOneToOneSpaceWithType(b, a.GetPublic(), typ)
	time.Sleep(1100 * time.Millisecond)
	pA2, errA2 := StoragePayloadForOneToOneSpaceWithType(a, b.GetPublic(), typ)
	rt.Assert(errA == nil && errB == nil && errA2 == nil, "one-to-one-derivation-succeeds")
	for _, p := range []spacestorage.SpaceStorageCreatePayload{pB, pA2} {
		rt.Assert(p.AclWithId.Id == pA.AclWithId.Id && string(p.AclWithId.Payload) == string(pA.AclWithId.Payload), "derived-acl-root-identical")
		rt.Assert(p.SpaceSettingsWithId.Id == pA.SpaceSettingsWithId.Id && string(p.SpaceSettingsWithId.RawChange) == string(pA.SpaceSettingsWithId.RawChange), "derived-settings-root-identical")
		rt.Assert(p.SpaceHeaderWithId.Id == pA.SpaceHeaderWithId.Id && string(p.SpaceHeaderWithId.RawHeader) == string(pA.SpaceHeaderWithId.RawHeader), "derived-header-and-space-id-identical")
	}
	rt.Reach("derived")
}
