//go:build verif

package synctree

import (
	"context"
	"sort"
	"strings"

	"google.golang.org/protobuf/proto"

	"github.com/anyproto/any-sync/commonspace/object/tree/objecttree"
	"github.com/anyproto/any-sync/commonspace/object/tree/synctree/response"
	"github.com/anyproto/any-sync/commonspace/sync/objectsync/objectmessages"
	"github.com/anyproto/any-sync/commonspace/sync/syncdeps"
	"github.com/anyproto/any-sync/commonspace/syncstatus"
	rt "github.com/anyproto/any-sync/internal/verifrt"
	"github.com/anyproto/any-sync/net/peer"
	"github.com/anyproto/any-sync/protobuf"
)

// Co-simulation of replicas of one tree: each replica is the real syncTree (real syncHandler, real request
// factory, real response producer, real objectTree) over the in-memory tree storage; the network is a bag of
// in-flight messages whose fate the schedule decides.

type vC01Msg struct {
	from, to string
	update   *objectmessages.HeadUpdate // head update (prepared by the sender), or
	request  *objectmessages.Request    // full sync request
}

type vC01Net struct {
	inflight []*vC01Msg
	replicas map[string]*vC01Replica
	names    []string
}

type vC01Client struct {
	RequestFactory
	self string
	net  *vC01Net
}

func (c *vC01Client) Broadcast(ctx context.Context, hu *objectmessages.HeadUpdate) error {
	for _, to := range c.net.names {
		if to != c.self {
			c.net.inflight = append(c.net.inflight, &vC01Msg{from: c.self, to: to, update: hu})
		}
	}
	return nil
}

func (c *vC01Client) QueueRequest(ctx context.Context, req syncdeps.Request) error {
	r := req.(*objectmessages.Request)
	c.net.inflight = append(c.net.inflight, &vC01Msg{from: c.self, to: r.PeerId(), request: r})
	return nil
}

func (c *vC01Client) SendTreeRequest(ctx context.Context, req syncdeps.Request, collector syncdeps.ResponseCollector) error {
	return c.QueueRequest(ctx, req)
}

type vC01Updater struct{}

func (vC01Updater) UpdateQueueSize(size uint64, msgType int, add bool) {}

type vC01Replica struct {
	name string
	fake *objecttree.VerifReplica
	st   *syncTree
}

func vC01NewReplica(net *vC01Net, name, rootId string, b *objecttree.VerifBuilder) *vC01Replica {
	fake, err := objecttree.VerifNewReplica(rootId, b, "w")
	rt.Assert(err == nil, "replica-opens")
	client := &vC01Client{RequestFactory: NewRequestFactory("space"), self: name, net: net}
	st := &syncTree{ObjectTree: fake.Tree(), syncClient: client, syncStatus: syncstatus.NewNoOpSyncStatus(), onClose: func(string) {}}
	st.ObjectSyncHandler = NewSyncHandler(st, client, "space")
	r := &vC01Replica{name: name, fake: fake, st: st}
	net.replicas[name] = r
	net.names = append(net.names, name)
	return r
}

// deliver hands one in-flight message to its addressee through the real handlers; requests are answered as one
// stream whose responses reach the requester in order
func (n *vC01Net) deliver(m *vC01Msg) {
	dst := n.replicas[m.to]
	ctx := peer.CtxWithPeerId(context.Background(), m.from)
	if m.update != nil {
		bytes, err := m.update.Update.Marshall(objectmessages.ObjectMeta{PeerId: m.to, ObjectId: m.update.Meta.ObjectId, SpaceId: m.update.Meta.SpaceId})
		rt.Assert(err == nil, "head-update-marshals")
		in := &objectmessages.HeadUpdate{Meta: objectmessages.ObjectMeta{PeerId: m.from, ObjectId: m.update.Meta.ObjectId, SpaceId: m.update.Meta.SpaceId}, Bytes: bytes}
		req, err := dst.st.HandleHeadUpdate(ctx, syncstatus.NewNoOpSyncStatus(), in)
		if err == nil && req != nil {
			r := req.(*objectmessages.Request)
			n.inflight = append(n.inflight, &vC01Msg{from: m.to, to: r.PeerId(), request: r})
		}
		return
	}
	bytes, err := m.request.Inner.Marshall()
	rt.Assert(err == nil, "request-marshals")
	in := objectmessages.NewByteRequest(m.from, "space", m.request.ObjectId(), bytes)
	src := n.replicas[m.from]
	back, err := dst.st.HandleStreamRequest(ctx, in, vC01Updater{}, func(resp proto.Message) error {
		r := &response.Response{}
		pm, ok := resp.(protobuf.Message)
		if !ok {
			return ErrUnexpectedResponseType
		}
		if err := r.SetProtoMessage(pm); err != nil {
			return err
		}
		return src.st.HandleResponse(peer.CtxWithPeerId(context.Background(), m.to), m.to, m.request.ObjectId(), r)
	})
	if err == nil && back != nil {
		r := back.(*objectmessages.Request)
		n.inflight = append(n.inflight, &vC01Msg{from: m.to, to: r.PeerId(), request: r})
	}
}

func vC01Sorted(l []string) string {
	c := append([]string{}, l...)
	sort.Strings(c)
	return strings.Join(c, ",")
}

// at no moment does a replica hold or advertise a change whose ancestors it does not hold
func (n *vC01Net) invariant(tag string) {
	for _, name := range n.names {
		r := n.replicas[name]
		parents, heads, live := r.fake.Closed()
		rt.Assert(parents, tag+":stored-changes-have-their-ancestors")
		rt.Assert(heads, tag+":recorded-heads-are-stored")
		rt.Assert(live, tag+":live-heads-are-the-recorded-heads")
	}
	for _, m := range n.inflight {
		if m.update != nil {
			src := n.replicas[m.from]
			stored := src.fake.StoredIds()
			for _, h := range m.update.Update.(*InnerHeadUpdate).heads {
				found := false
				for _, s := range stored {
					if s == h {
						found = true
					}
				}
				rt.Assert(found, tag+":advertised-heads-are-held-by-the-sender")
			}
		}
	}
}

// VerifC01Cosim: after any schedule of local adds and message fates, a drained network and one anti-entropy
// exchange per ordered pair leave all replicas with equal heads and equal stored changes.
func VerifC01Cosim() {
	adds := rt.Param("adds", 2)   // local adds in total
	steps := rt.Param("steps", 4) // scheduler steps before the anti-entropy phase
	nrep := rt.Param("replicas", 2)
	snapshots := rt.Param("snapshots", 0)
	ids := rt.Atoms(adds+1, 2)
	b := objecttree.VerifNewBuilder(ids[1:])
	net := &vC01Net{replicas: map[string]*vC01Replica{}}
	names := []string{"A", "B", "C"}[:nrep]
	for _, name := range names {
		vC01NewReplica(net, name, ids[0], b)
	}
	ctx := context.Background()
	added := 0
	for s := 0; s < steps; s++ {
		// what happens next: a local add somewhere, or a fate for one in-flight message
		nAdd := 0
		if added < adds {
			nAdd = nrep
		}
		k := rt.Choose(nAdd + 3*len(net.inflight) + 1)
		switch {
		case k < nAdd:
			r := net.replicas[names[k]]
			snap := snapshots == 1 && rt.Bool()
			_, err := r.st.AddContent(ctx, objecttree.SignableChangeContent{Data: []byte("d"), Key: objecttree.VerifKey("w"), IsSnapshot: snap, Timestamp: 1, DataType: "t"})
			rt.Assert(err == nil, "local-add-succeeds")
			added++
		case k < nAdd+3*len(net.inflight):
			i := (k - nAdd) / 3
			fate := (k - nAdd) % 3
			m := net.inflight[i]
			if fate != 2 { // 0: deliver, 1: drop, 2: duplicate (deliver and keep in flight)
				net.inflight = append(net.inflight[:i:i], net.inflight[i+1:]...)
			}
			if fate != 1 {
				net.deliver(m)
			}
		default:
			// nothing happens in this step
		}
		net.invariant("step")
	}
	// the network drains: what is still in flight is delivered (in the order it was sent) or lost
	lose := rt.Bool()
	for guard := 0; len(net.inflight) > 0; guard++ {
		rt.Assert(guard < 40, "network-drains")
		m := net.inflight[0]
		net.inflight = net.inflight[1:]
		if !lose {
			net.deliver(m)
		}
		net.invariant("drain")
	}
	// fair anti-entropy: every ordered pair completes one exchange over a reliable network
	for _, x := range names {
		for _, y := range names {
			if x == y {
				continue
			}
			p := &vC01Peer{id: y}
			rt.Assert(net.replicas[x].st.SyncWithPeer(ctx, p) == nil, "sync-with-peer-starts")
			for guard := 0; len(net.inflight) > 0; guard++ {
				rt.Assert(guard < 40, "anti-entropy-terminates")
				m := net.inflight[0]
				net.inflight = net.inflight[1:]
				net.deliver(m)
				net.invariant("anti-entropy")
			}
		}
	}
	first := net.replicas[names[0]]
	for _, name := range names[1:] {
		r := net.replicas[name]
		rt.Assert(vC01Sorted(r.st.Heads()) == vC01Sorted(first.st.Heads()), "replicas-hold-equal-heads")
		rt.Assert(vC01Sorted(r.fake.StoredIds()) == vC01Sorted(first.fake.StoredIds()), "replicas-hold-equal-changes")
	}
	rt.Assert(len(first.fake.StoredIds()) == added+1, "no-change-is-lost")
	rt.Reach("converged")
}

type vC01Peer struct {
	peer.Peer
	id string
}

func (p *vC01Peer) Id() string { return p.id }
