//go:build verif

package synctree

import (
	"context"
	"errors"

	"google.golang.org/protobuf/proto"

	"github.com/anyproto/any-sync/commonspace/object/acl/list"
	"github.com/anyproto/any-sync/commonspace/object/tree/objecttree"
	"github.com/anyproto/any-sync/commonspace/object/tree/synctree/response"
	"github.com/anyproto/any-sync/commonspace/object/tree/treechangeproto"
	"github.com/anyproto/any-sync/commonspace/object/tree/treestorage"
	"github.com/anyproto/any-sync/commonspace/spacestorage"
	"github.com/anyproto/any-sync/commonspace/sync/objectsync/objectmessages"
	"github.com/anyproto/any-sync/commonspace/syncstatus"
	rt "github.com/anyproto/any-sync/internal/verifrt"
	"github.com/anyproto/any-sync/net/peer"
)

// Structurally valid but misplaced tree sync messages (C11): every variant of the message's oneof (and none),
// with and without its fields, handed to each of the three entry points of the real sync handler of a real
// sync tree.  Each is handled or refused with an error; none panics.
func vC11SyncMessage(kind int) *treechangeproto.TreeSyncMessage {
	switch kind {
	case 0:
		return treechangeproto.WrapHeadUpdate(&treechangeproto.TreeHeadUpdate{}, nil)
	case 1:
		return treechangeproto.WrapHeadUpdate(&treechangeproto.TreeHeadUpdate{Heads: []string{"zz"}, SnapshotPath: []string{"zz"}}, nil)
	case 2:
		return treechangeproto.WrapFullRequest(&treechangeproto.TreeFullSyncRequest{}, nil)
	case 3:
		return treechangeproto.WrapFullRequest(&treechangeproto.TreeFullSyncRequest{Heads: []string{"zz"}, SnapshotPath: []string{"zz"}}, nil)
	case 4:
		return treechangeproto.WrapFullResponse(&treechangeproto.TreeFullSyncResponse{}, nil)
	case 5:
		return treechangeproto.WrapFullResponse(&treechangeproto.TreeFullSyncResponse{Heads: []string{"zz"}, Changes: []*treechangeproto.RawTreeChangeWithId{{Id: "zz", RawChange: []byte{1}}}}, nil)
	case 6:
		return &treechangeproto.TreeSyncMessage{Content: &treechangeproto.TreeSyncContentValue{Value: &treechangeproto.TreeSyncContentValue_ErrorResponse{ErrorResponse: &treechangeproto.TreeErrorResponse{ErrCode: 1}}}}
	case 7:
		return &treechangeproto.TreeSyncMessage{Content: &treechangeproto.TreeSyncContentValue{}}
	default:
		return &treechangeproto.TreeSyncMessage{}
	}
}

func VerifC11SyncMsg() {
	ids := rt.Atoms(4, 2)
	b := objecttree.VerifNewBuilder(ids[1:])
	net := &vC01Net{replicas: map[string]*vC01Replica{}}
	r := vC01NewReplica(net, "a", ids[0], b)
	msg := vC11SyncMessage(rt.Choose(9))
	// through the wire encoding, as a peer's bytes arrive
	raw, err := msg.MarshalVT()
	rt.Assert(err == nil, "marshals")
	ctx := peer.CtxWithPeerId(context.Background(), "evil")
	switch rt.Choose(3) {
	case 0:
		in := &objectmessages.HeadUpdate{Meta: objectmessages.ObjectMeta{PeerId: "evil", ObjectId: ids[0], SpaceId: "space"}, Bytes: raw}
		_, err = r.st.HandleHeadUpdate(ctx, syncstatus.NewNoOpSyncStatus(), in)
	case 1:
		in := objectmessages.NewByteRequest("evil", "space", ids[0], raw)
		_, err = r.st.HandleStreamRequest(ctx, in, vC01Updater{}, func(resp proto.Message) error { return nil })
	default:
		decoded := &treechangeproto.TreeSyncMessage{}
		rt.Assert(decoded.UnmarshalVT(raw) == nil, "decodes")
		resp := &response.Response{}
		if full := decoded.GetContent().GetFullSyncResponse(); full != nil {
			resp.Heads = full.Heads
			resp.Changes = full.Changes
			resp.SnapshotPath = full.SnapshotPath
		}
		err = r.st.HandleResponse(ctx, "evil", ids[0], resp)
	}
	if err != nil {
		rt.Reach("refused")
	} else {
		rt.Reach("handled")
	}
	rt.Reach("survived")
}

// the storage side of a tree fetched from a peer: refuses everything, so that only the handling of the
// peer's answer itself is in play
type vC11Space struct{ spacestorage.SpaceStorage }

func (vC11Space) CreateTreeStorage(ctx context.Context, payload treestorage.TreeStorageCreatePayload) (objecttree.Storage, error) {
	return nil, errors.New("verif: no storage")
}
func (vC11Space) CreateStorageWithDeferredCreation(ctx context.Context, payload treestorage.TreeStorageCreatePayload) (objecttree.Storage, error) {
	return nil, errors.New("verif: no storage")
}

// VerifC11Collect: the answer to a tree fetch, with or without the root it must carry, is refused with an error.
func VerifC11Collect() {
	deps := BuildDeps{SpaceStorage: vC11Space{}}
	if rt.Choose(2) == 1 {
		// the validator used for trees that are filtered by the reader's keys
		me := objecttree.VerifKey("w").GetPublic()
		acl := list.VerifNewAcl([]string{"acl0"}, []list.VerifPerm{{Key: me, Since: []int{0}, Perms: []list.AclPermissions{list.AclPermissionsReader}}})
		acl.SetIdentity(me)
		deps.AclList = acl
		deps.ValidateObjectTree = objecttree.ValidateFilterRawTree
	}
	c := newFullResponseCollector(deps)
	resp := &response.Response{}
	switch rt.Choose(3) {
	case 0: // nothing
	case 1: // heads and changes, no root
		resp.Heads = []string{"zz"}
		resp.Changes = []*treechangeproto.RawTreeChangeWithId{{Id: "zz", RawChange: []byte{1}}}
	case 2: // a root that is not one
		resp.Root = &treechangeproto.RawTreeChangeWithId{Id: "zz", RawChange: []byte{1}}
	}
	err := c.CollectResponse(context.Background(), "evil", "zz", resp)
	rt.Assert(err != nil, "a-fetch-answer-that-is-not-a-tree-is-refused")
	rt.Reach("refused")
}
