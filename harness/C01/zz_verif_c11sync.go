//go:build verif

package synctree

import (
	"context"

	"google.golang.org/protobuf/proto"

	"github.com/anyproto/any-sync/commonspace/object/tree/objecttree"
	"github.com/anyproto/any-sync/commonspace/object/tree/synctree/response"
	"github.com/anyproto/any-sync/commonspace/object/tree/treechangeproto"
	"github.com/anyproto/any-sync/commonspace/sync/objectsync/objectmessages"
	"github.com/anyproto/any-sync/commonspace/syncstatus"
	rt "github.com/anyproto/any-sync/internal/verifrt"
	"github.com/anyproto/any-sync/net/peer"
)

// Structurally valid but misplaced tree sync messages (C11): every variant of the message's oneof (and none),
// with and without its fields, handed to each of the three entry points of the real sync handler of a real
// sync tree.  Each is handled or refused with an error; none panics.
func vC11SyncMessage(kind int) *treechangeproto.TreeSyncMessage {
	switch kind {
	case 0:
		return treechangeproto.WrapHeadUpdate(&treechangeproto.TreeHeadUpdate{}, nil)
	case 1:
		return treechangeproto.WrapHeadUpdate(&treechangeproto.TreeHeadUpdate{Heads: []string{"zz"}, SnapshotPath: []string{"zz"}}, nil)
	case 2:
		return treechangeproto.WrapFullRequest(&treechangeproto.TreeFullSyncRequest{}, nil)
	case 3:
		return treechangeproto.WrapFullRequest(&treechangeproto.TreeFullSyncRequest{Heads: []string{"zz"}, SnapshotPath: []string{"zz"}}, nil)
	case 4:
		return treechangeproto.WrapFullResponse(&treechangeproto.TreeFullSyncResponse{}, nil)
	case 5:
		return treechangeproto.WrapFullResponse(&treechangeproto.TreeFullSyncResponse{Heads: []string{"zz"}, Changes: []*treechangeproto.RawTreeChangeWithId{{Id: "zz", RawChange: []byte{1}}}}, nil)
	case 6:
		return &treechangeproto.TreeSyncMessage{Content: &treechangeproto.TreeSyncContentValue{Value: &treechangeproto.TreeSyncContentValue_ErrorResponse{ErrorResponse: &treechangeproto.TreeErrorResponse{ErrCode: 1}}}}
	case 7:
		return &treechangeproto.TreeSyncMessage{Content: &treechangeproto.TreeSyncContentValue{}}
	default:
		return &treechangeproto.TreeSyncMessage{}
	}
}

func VerifC11SyncMsg() {
	ids := rt.Atoms(4, 2)
	b := objecttree.VerifNewBuilder(ids[1:])
	net := &vC01Net{replicas: map[string]*vC01Replica{}}
	r := vC01NewReplica(net, "a", ids[0], b)
	msg := vC11SyncMessage(rt.Choose(9))
	// through the wire encoding, as a peer's bytes arrive
	raw, err := msg.MarshalVT()
	rt.Assert(err == nil, "marshals")
	ctx := peer.CtxWithPeerId(context.Background(), "evil")
	switch rt.Choose(3) {
	case 0:
		in := &objectmessages.HeadUpdate{Meta: objectmessages.ObjectMeta{PeerId: "evil", ObjectId: ids[0], SpaceId: "space"}, Bytes: raw}
		_, err = r.st.HandleHeadUpdate(ctx, syncstatus.NewNoOpSyncStatus(), in)
	case 1:
		in := objectmessages.NewByteRequest("evil", "space", ids[0], raw)
		_, err = r.st.HandleStreamRequest(ctx, in, vC01Updater{}, func(resp proto.Message) error { return nil })
	default:
		decoded := &treechangeproto.TreeSyncMessage{}
		rt.Assert(decoded.UnmarshalVT(raw) == nil, "decodes")
		resp := &response.Response{}
		if full := decoded.GetContent().GetFullSyncResponse(); full != nil {
			resp.Heads = full.Heads
			resp.Changes = full.Changes
			resp.SnapshotPath = full.SnapshotPath
		}
		err = r.st.HandleResponse(ctx, "evil", ids[0], resp)
	}
	if err != nil {
		rt.Reach("refused")
	} else {
		rt.Reach("handled")
	}
	rt.Reach("survived")
}
