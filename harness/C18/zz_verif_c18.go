//go:build verif

package nodeconf

import (
	"github.com/anyproto/go-chash"

	rt "github.com/anyproto/any-sync/internal/verifrt"
)

func vC18Contains(l []string, s string) bool {
	for _, e := range l {
		if e == s {
			return true
		}
	}
	return false
}

// reference replication key: suffix after the last '.', whole id if none
func vC18RefReplKey(id string) string {
	last := -1
	for i := 0; i < len(id); i++ {
		if id[i] == '.' {
			last = i
		}
	}
	if last < 0 {
		return id
	}
	return id[last+1:]
}

// VerifC18Responsible: every participant derives the same responsible set.
func VerifC18Responsible() {
	n := rt.Param("n", 3)
	idLen := rt.Param("idlen", 4)
	chash.VerifPick = func(ids []string, key string) uint64 {
		args := make([]any, 0, len(ids)+1)
		for _, id := range ids {
			args = append(args, id)
		}
		args = append(args, key)
		v := rt.UF8("chashpick", args...)
		if len(ids) > 0 {
			rt.Assume(int(v) < len(ids))
		}
		return uint64(v)
	}
	chash.VerifLog = nil
	peers := rt.Atoms(n+1, 2) // last one is a client that is not in the configuration
	var nodes []Node
	isTree := make([]bool, n)
	var treeIds []string
	for i := 0; i < n; i++ {
		var types []NodeType
		switch rt.Choose(3) {
		case 0:
			types = []NodeType{NodeTypeTree}
			isTree[i] = true
		case 1:
			types = []NodeType{NodeTypeFile, NodeTypeCoordinator}
		case 2:
			types = []NodeType{NodeTypeConsensus, NodeTypeTree, NodeTypeFile}
			isTree[i] = true
		}
		if isTree[i] {
			treeIds = append(treeIds, peers[i])
		}
		nodes = append(nodes, Node{PeerId: peers[i], Types: types})
	}
	conf := Configuration{Id: "conf", NetworkId: "net", Nodes: nodes}
	spaceId := rt.String(rt.Choose(idLen + 1))

	// replication key rule
	key := ReplKey(spaceId)
	rt.Assert(key == vC18RefReplKey(spaceId), "replkey-is-suffix-after-last-dot")

	// two participants build their view independently from the same configuration
	// (each participant is compared with the canonical set below, so any two
	// participants agree with each other; b is the non-member client)
	a := rt.Choose(n)
	b := n
	ncA, errA := сonfigurationToNodeConf(conf)
	ncB, errB := сonfigurationToNodeConf(conf)
	rt.Assert(errA == nil && errB == nil, "configuration-accepted")
	ncA.accountId = peers[a]
	ncB.accountId = peers[b]

	// the ring is fed exactly the tree nodes, in configuration order, for everybody
	rt.Assert(len(chash.VerifLog) >= 2, "ring-filled")
	for _, fed := range [][]string{chash.VerifLog[0], chash.VerifLog[len(chash.VerifLog)/2]} {
		rt.Assert(len(fed) == len(treeIds), "ring-members-are-tree-nodes")
		for i := range fed {
			if i < len(treeIds) {
				rt.Assert(fed[i] == treeIds[i], "ring-members-in-config-order")
			}
		}
	}

	var members []string
	for _, m := range ncA.chash.GetMembers(key) {
		members = append(members, m.Id())
	}
	want := ReplicationFactor
	if len(treeIds) < want {
		want = len(treeIds)
	}
	rt.Assert(len(members) == want, "responsible-count-is-min-rf-n")
	for i := range members {
		for j := i + 1; j < len(members); j++ {
			rt.Assert(members[i] != members[j], "responsible-distinct")
		}
		rt.Assert(vC18Contains(treeIds, members[i]), "responsible-are-sync-nodes")
	}

	for _, p := range []struct {
		nc   *nodeConf
		self string
	}{{ncA, peers[a]}, {ncB, peers[b]}} {
		resp := p.nc.IsResponsible(spaceId)
		rt.Assert(resp == vC18Contains(members, p.self), "responsible-iff-in-set")
		ids := p.nc.NodeIds(spaceId)
		// NodeIds = members minus self, order preserved
		var exp []string
		for _, m := range members {
			if m != p.self {
				exp = append(exp, m)
			}
		}
		rt.Assert(len(ids) == len(exp), "nodeids-is-set-minus-self")
		for i := range ids {
			if i < len(exp) {
				rt.Assert(ids[i] == exp[i], "nodeids-order-preserved")
			}
		}
		// union with self (if responsible) is the same set for every participant
		full := append([]string{}, ids...)
		if resp {
			full = append(full, p.self)
		}
		rt.Assert(len(full) == len(members), "participants-agree-size")
		for _, m := range members {
			rt.Assert(vC18Contains(full, m), "participants-agree-on-set")
		}
	}
	if want > 0 {
		rt.Reach("nonempty-set")
	}
	rt.Reach("done")
}
