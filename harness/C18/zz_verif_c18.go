//go:build verif

package nodeconf

import (
	"context"

	"github.com/anyproto/go-chash"

	commonaccount "github.com/anyproto/any-sync/accountservice"
	"github.com/anyproto/any-sync/app"
	"github.com/anyproto/any-sync/commonspace/object/accountdata"
	rt "github.com/anyproto/any-sync/internal/verifrt"
)

func vC18Contains(l []string, s string) bool {
	for _, e := range l {
		if e == s {
			return true
		}
	}
	return false
}

// reference replication key: suffix after the last '.', whole id if none
func vC18RefReplKey(id string) string {
	last := -1
	for i := 0; i < len(id); i++ {
		if id[i] == '.' {
			last = i
		}
	}
	if last < 0 {
		return id
	}
	return id[last+1:]
}

// VerifC18Responsible: every participant derives the same responsible set.
func VerifC18Responsible() {
	n := rt.Param("n", 3)
	idLen := rt.Param("idlen", 4)
	chash.VerifPick = func(ids []string, key string) uint64 {
		args := make([]any, 0, len(ids)+1)
		for _, id := range ids {
			args = append(args, id)
		}
		args = append(args, key)
		v := rt.UF8("chashpick", args...)
		if len(ids) > 0 {
			rt.Assume(int(v) < len(ids))
		}
		return uint64(v)
	}
	chash.VerifLog = nil
	peers := rt.Atoms(n+1, 2) // last one is a client that is not in the configuration
	var nodes []Node
	isTree := make([]bool, n)
	var treeIds []string
	for i := 0; i < n; i++ {
		var types []NodeType
		switch rt.Choose(5) {
		case 3: // a sync node that also serves the fileV2 ring (seed C18-k): still a sync node
			types = []NodeType{NodeTypeFileV2, NodeTypeTree}
			isTree[i] = true
		case 4: // a pure fileV2 node: never a sync node
			types = []NodeType{NodeTypeFileV2, NodeTypeNamingNode, NodeTypePaymentProcessingNode}
		case 0:
			types = []NodeType{NodeTypeTree}
			isTree[i] = true
		case 1:
			types = []NodeType{NodeTypeFile, NodeTypeCoordinator}
		case 2:
			types = []NodeType{NodeTypeConsensus, NodeTypeTree, NodeTypeFile}
			isTree[i] = true
		}
		if isTree[i] {
			treeIds = append(treeIds, peers[i])
		}
		nodes = append(nodes, Node{PeerId: peers[i], Types: types})
	}
	conf := Configuration{Id: "conf", NetworkId: "net", Nodes: nodes}
	spaceId := rt.String(rt.Choose(idLen + 1))

	// replication key rule
	key := ReplKey(spaceId)
	rt.Assert(key == vC18RefReplKey(spaceId), "replkey-is-suffix-after-last-dot")

	// two participants build their view independently from the same configuration
	// (each participant is compared with the canonical set below, so any two
	// participants agree with each other; b is the non-member client)
	a := rt.Choose(n)
	b := n
	ncA, errA := сonfigurationToNodeConf(conf)
	ncB, errB := сonfigurationToNodeConf(conf)
	rt.Assert(errA == nil && errB == nil, "configuration-accepted")
	ncA.accountId = peers[a]
	ncB.accountId = peers[b]

	// the ring is fed exactly the tree nodes, in configuration order, for everybody
	rt.Assert(len(chash.VerifLog) >= 2, "ring-filled")
	for _, fed := range [][]string{chash.VerifLog[0], chash.VerifLog[len(chash.VerifLog)/2]} {
		rt.Assert(len(fed) == len(treeIds), "ring-members-are-tree-nodes")
		for i := range fed {
			if i < len(treeIds) {
				rt.Assert(fed[i] == treeIds[i], "ring-members-in-config-order")
			}
		}
	}

	var members []string
	for _, m := range ncA.chash.GetMembers(key) {
		members = append(members, m.Id())
	}
	want := ReplicationFactor
	if len(treeIds) < want {
		want = len(treeIds)
	}
	rt.Assert(len(members) == want, "responsible-count-is-min-rf-n")
	for i := range members {
		for j := i + 1; j < len(members); j++ {
			rt.Assert(members[i] != members[j], "responsible-distinct")
		}
		rt.Assert(vC18Contains(treeIds, members[i]), "responsible-are-sync-nodes")
	}

	for _, p := range []struct {
		nc   *nodeConf
		self string
	}{{ncA, peers[a]}, {ncB, peers[b]}} {
		resp := p.nc.IsResponsible(spaceId)
		rt.Assert(resp == vC18Contains(members, p.self), "responsible-iff-in-set")
		ids := p.nc.NodeIds(spaceId)
		// NodeIds = members minus self, order preserved
		var exp []string
		for _, m := range members {
			if m != p.self {
				exp = append(exp, m)
			}
		}
		rt.Assert(len(ids) == len(exp), "nodeids-is-set-minus-self")
		for i := range ids {
			if i < len(exp) {
				rt.Assert(ids[i] == exp[i], "nodeids-order-preserved")
			}
		}
		// union with self (if responsible) is the same set for every participant
		full := append([]string{}, ids...)
		if resp {
			full = append(full, p.self)
		}
		rt.Assert(len(full) == len(members), "participants-agree-size")
		for _, m := range members {
			rt.Assert(vC18Contains(full, m), "participants-agree-on-set")
		}
	}
	if want > 0 {
		rt.Reach("nonempty-set")
	}
	rt.Reach("done")
}

// ---- the service in front of the node configuration

type vC18Cfg struct{ conf Configuration }

func (c *vC18Cfg) Init(a *app.App) error       { return nil }
func (c *vC18Cfg) Name() string                { return "config" }
func (c *vC18Cfg) GetNodeConf() Configuration  { return c.conf }

type vC18Acc struct{ id string }

func (c *vC18Acc) Init(a *app.App) error             { return nil }
func (c *vC18Acc) Name() string                      { return commonaccount.CName }
func (c *vC18Acc) Account() *accountdata.AccountKeys { return &accountdata.AccountKeys{PeerId: c.id} }

type vC18Source struct{}

func (vC18Source) Init(a *app.App) error { return nil }
func (vC18Source) Name() string          { return CNameSource }
func (vC18Source) GetLast(ctx context.Context, currentId string) (Configuration, error) {
	return Configuration{}, ErrConfigurationNotChanged // the source is unreachable / has nothing newer
}

type vC18Store struct {
	has  bool
	conf Configuration
}

func (s *vC18Store) Init(a *app.App) error { return nil }
func (s *vC18Store) Name() string          { return CNameStore }
func (s *vC18Store) GetLast(ctx context.Context, netId string) (Configuration, error) {
	if !s.has {
		return Configuration{}, ErrConfigurationNotFound
	}
	return s.conf, nil
}
func (s *vC18Store) SaveLast(ctx context.Context, c Configuration) error {
	s.has, s.conf = true, c
	return nil
}

type vC18Proto struct{}

func (vC18Proto) Init(a *app.App) error                                { return nil }
func (vC18Proto) Name() string                                         { return "verif.protochecker" }
func (vC18Proto) IsNetworkNeedsUpdate(ctx context.Context) (bool, error) { return false, nil }

// VerifC18Service: whatever the start-up path (no stored configuration, a stored one, a stored one that has to be
// rewritten because the application configuration knows more coordinator addresses), the service answers
// IsResponsible / NodeIds for the asking identity exactly as the responsible set says.
func VerifC18Service() {
	chash.VerifPick = func(ids []string, key string) uint64 {
		args := make([]any, 0, len(ids)+1)
		for _, id := range ids {
			args = append(args, id)
		}
		args = append(args, key)
		v := rt.UF8("chashpick", args...)
		if len(ids) > 0 {
			rt.Assume(int(v) < len(ids))
		}
		return uint64(v)
	}
	chash.VerifLog = nil
	nTree := 1 + rt.Choose(4)
	var nodes []Node
	var treeIds []string
	for i := 0; i < nTree; i++ {
		id := "tree" + string(rune('0'+i))
		nodes = append(nodes, Node{PeerId: id, Types: []NodeType{NodeTypeTree}, Addresses: []string{"a" + id}})
		treeIds = append(treeIds, id)
	}
	coord := Node{PeerId: "coord", Types: []NodeType{NodeTypeCoordinator}, Addresses: []string{"c1"}}
	appConf := Configuration{Id: "conf", NetworkId: "net", Nodes: append(append([]Node{}, nodes...), coord)}
	store := &vC18Store{}
	switch rt.Choose(4) {
	case 1: // the same configuration is stored
		store.has, store.conf = true, Configuration{Id: "conf", NetworkId: "net", Nodes: append([]Node{}, appConf.Nodes...)}
	case 2: // the stored one lacks a coordinator address the application configuration has
		appConf.Nodes[len(appConf.Nodes)-1].Addresses = []string{"c1", "c2"}
		store.has, store.conf = true, Configuration{Id: "conf", NetworkId: "net", Nodes: append(append([]Node{}, nodes...), coord)}
	case 3: // the stored one lacks the coordinator node altogether
		store.has, store.conf = true, Configuration{Id: "conf", NetworkId: "net", Nodes: append([]Node{}, nodes...)}
	}
	self := []string{"tree0", "client", "coord"}[rt.Choose(3)]

	a := new(app.App)
	a.Register(&vC18Cfg{conf: appConf}).Register(&vC18Acc{id: self}).Register(vC18Source{}).Register(store).Register(vC18Proto{})
	s := New().(*service)
	rt.Assert(s.Init(a) == nil, "service-starts")

	spaceId := "space." + []string{"0", "z", "1a"}[rt.Choose(3)]
	var members []string
	for _, m := range s.last.(*nodeConf).chash.GetMembers(ReplKey(spaceId)) {
		members = append(members, m.Id())
	}
	want := ReplicationFactor
	if len(treeIds) < want {
		want = len(treeIds)
	}
	rt.Assert(len(members) == want, "responsible-count-is-min-rf-n")
	rt.Assert(s.IsResponsible(spaceId) == vC18Contains(members, self), "service-responsible-iff-in-set")
	ids := s.NodeIds(spaceId)
	var exp []string
	for _, m := range members {
		if m != self {
			exp = append(exp, m)
		}
	}
	rt.Assert(len(ids) == len(exp), "service-nodeids-is-set-minus-self")
	for i := range ids {
		if i < len(exp) {
			rt.Assert(ids[i] == exp[i], "service-nodeids-order-preserved")
		}
	}
	rt.Reach("service")
}
