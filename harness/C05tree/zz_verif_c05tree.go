//go:build verif

package objecttree

import (
	"context"
	"errors"

	"github.com/anyproto/any-sync/commonspace/object/accountdata"
	"github.com/anyproto/any-sync/commonspace/object/acl/list"
	"github.com/anyproto/any-sync/commonspace/object/acl/recordverifier"
	"github.com/anyproto/any-sync/commonspace/object/tree/treechangeproto"
	"github.com/anyproto/any-sync/consensus/consensusproto"
	rt "github.com/anyproto/any-sync/internal/verifrt"
	"github.com/anyproto/any-sync/util/cidutil"
	"github.com/anyproto/any-sync/util/crypto"
)

var vC05tCids map[string]string

func vC05tCid(data []byte) string {
	if id, ok := vC05tCids[string(data)]; ok {
		return id
	}
	n := len(vC05tCids)
	id := "cid" + string(rune('0'+n/10)) + string(rune('0'+n%10))
	vC05tCids[string(data)] = id
	return id
}

func vC05tInstall() {
	vC05tCids = map[string]string{}
	rt.Replace("github.com/anyproto/any-sync/util/cidutil.VerifyCid", func(data []byte, id string) bool { return vC05tCid(data) == id })
	rt.Replace("github.com/anyproto/any-sync/util/cidutil.NewCidFromBytes", func(data []byte) (string, error) { return vC05tCid(data), nil })
	list.VerifCryptoInstall()
}

func vC05tAcl(root *consensusproto.RawRecordWithId, observer string, recs []*consensusproto.RawRecordWithId) list.AclList {
	st, err := list.NewInMemoryStorage(root.Id, []*consensusproto.RawRecordWithId{root})
	rt.Assert(err == nil, "acl-storage")
	l, err := list.BuildAclListWithIdentity(&accountdata.AccountKeys{SignKey: list.VerifPriv(observer), PeerId: observer}, st, recordverifier.NewValidateFull())
	rt.Assert(err == nil, "acl-builds")
	for _, r := range recs {
		rt.Assert(l.AddRawRecord(r) == nil, "acl-record-accepted")
	}
	return l
}

func vC05tWrap(raw *consensusproto.RawRecord) *consensusproto.RawRecordWithId {
	payload, _ := raw.MarshalVT()
	id, _ := cidutil.NewCidFromBytes(payload)
	return &consensusproto.RawRecordWithId{Payload: payload, Id: id}
}

func vC05tTree(root *treechangeproto.RawTreeChangeWithId, acl list.AclList) *objectTree {
	store := newVStore(StorageChange{RawChange: root.RawChange, Id: root.Id, SnapshotCounter: 1, OrderId: lexId.Next(""), ChangeSize: len(root.RawChange)})
	t, err := BuildObjectTree(store, acl)
	rt.Assert(err == nil, "tree-builds")
	return t.(*objectTree)
}

// the decoded payload of a raw change as it is stored and sent
func vC05tPayload(raw *treechangeproto.RawTreeChangeWithId) *treechangeproto.TreeChange {
	rc := &treechangeproto.RawTreeChange{}
	rt.Assert(rc.UnmarshalVT(raw.RawChange) == nil, "raw-change-decodes")
	tc := &treechangeproto.TreeChange{}
	rt.Assert(tc.UnmarshalVT(rc.Payload) == nil, "tree-change-decodes")
	return tc
}

// what a reader sees when iterating with decryption
func vC05tRead(t *objectTree) ([]string, error) {
	var out []string
	err := t.IterateRoot(func(ch *Change, decrypted []byte) (any, error) { return string(decrypted), nil }, func(ch *Change) bool {
		if s, ok := ch.Model.(string); ok {
			out = append(out, s)
		}
		return true
	})
	return out, err
}

// id of the ACL record that introduced the n-th read key generation (1 = the root)
func recsOrRoot(root *consensusproto.RawRecordWithId, recs []*consensusproto.RawRecordWithId, n int) string {
	if n == 1 {
		return root.Id
	}
	// recs[0] is the accounts-add record; every later one is a rotation
	return recs[n-1].Id
}

// VerifC05Tree: content added as encrypted is stored and sent only as ciphertext under the tree key derived from the
// read key its read-key id names, current members read it back, an account without the key does not, and building an
// encrypted change without a key fails.
func VerifC05Tree() {
	ctx := context.Background()
	vC05tInstall()
	rk0, mk0, raw0 := list.VerifFreshKeys()
	own := list.VerifPriv("own")
	b := list.NewAclRecordBuilder("", crypto.NewKeyStorage(), &accountdata.AccountKeys{SignKey: own, PeerId: "own"}, recordverifier.NewValidateFull())
	aclRoot, err := b.BuildRoot(list.RootContent{PrivKey: own, MasterKey: list.VerifPriv("master"), SpaceId: "space",
		Change: list.ReadKeyChangePayload{MetadataKey: mk0, ReadKey: rk0}, Metadata: []byte("m")})
	rt.Assert(err == nil, "acl-root-builds")
	ownAcl := vC05tAcl(aclRoot, "own", nil)
	gens := []string{raw0}

	// a is admitted as a writer; the writer's tree is open while keys rotate around its writes
	var recs []*consensusproto.RawRecordWithId
	var views []list.AclList
	add := func(raw *consensusproto.RawRecord, err error) {
		rt.Assert(err == nil, "acl-record-builds")
		r := vC05tWrap(raw)
		rt.Assert(ownAcl.AddRawRecord(r) == nil, "owner-accepts-own-record")
		for _, v := range views {
			rt.Assert(v.AddRawRecord(r) == nil, "member-accepts-the-record")
		}
		recs = append(recs, r)
	}
	add(ownAcl.RecordBuilder().BuildAccountsAdd(list.AccountsAddPayload{Additions: []list.AccountAdd{{Identity: list.VerifPub("a"), Permissions: list.AclPermissionsWriter, Metadata: []byte("m")}}}))
	rotate := func() {
		rk, mk, raw := list.VerifFreshKeys()
		add(ownAcl.RecordBuilder().BuildReadKeyChange(list.ReadKeyChangePayload{MetadataKey: mk, ReadKey: rk}))
		gens = append(gens, raw)
	}
	// schedule: R = rotation, W = encrypted write on the open tree
	schedule := []string{"W", "RW", "WR", "WRW", "RWRW", "WRRW"}[rt.Choose(6)]
	writer := []string{"own", "a"}[rt.Choose(2)]
	aAcl := vC05tAcl(aclRoot, "a", recs)
	views = append(views, aAcl)
	writerAcl := ownAcl
	if writer == "a" {
		writerAcl = aAcl
	}

	treeRoot, err := CreateObjectTreeRoot(ObjectTreeCreatePayload{PrivKey: own, ChangeType: "t", SpaceId: "space", IsEncrypted: true, Seed: []byte("s"), Timestamp: 1}, ownAcl)
	rt.Assert(err == nil, "tree-root-builds")
	wt := vC05tTree(treeRoot, writerAcl) // opened before any rotation of the schedule
	var sentAll []*treechangeproto.RawTreeChangeWithId
	var texts []string
	for i := 0; i < len(schedule); i++ {
		if schedule[i] == 'R' {
			rotate()
			continue
		}
		text := "secret" + string(rune('0'+len(texts)))
		heads := wt.Heads()
		res, err := wt.AddContent(ctx, SignableChangeContent{Data: []byte(text), Key: list.VerifPriv(writer), ShouldBeEncrypted: true, Timestamp: 2, DataType: "d"})
		rt.Assert(err == nil && len(res.Added) == 1, "encrypted-content-is-added")
		if err != nil {
			return
		}
		sent := res.Added[0].RawTreeChangeWithId()
		tc := vC05tPayload(sent)
		rt.Assert(tc.ReadKeyId == writerAcl.AclState().CurrentReadKeyId() && tc.ReadKeyId == recsOrRoot(aclRoot, recs, len(gens)), "change-names-the-current-read-key")
		// the tree key is the (modelled) derivation of the newest generation: "K.." -> "T.."
		want := []byte(gens[len(gens)-1])
		want[0] = 'T'
		rt.Assert(string(tc.ChangesData) == "A("+string(want)+")"+text, "sent-bytes-are-ciphertext-under-the-named-key")
		stored, err := wt.storage.Get(ctx, sent.Id)
		rt.Assert(err == nil && string(stored.RawChange) == string(sent.RawChange), "stored-bytes-are-the-sent-bytes")
		// (the modelled ciphertext and the modelled signature both wrap their input literally, so searching the raw
		// bytes for the plaintext says nothing: the claim is the equality above, field by field)
		rt.Assert(tc.AclHeadId == writerAcl.Head().Id && len(tc.TreeHeadIds) == len(heads) && tc.TreeHeadIds[0] == heads[0], "change-cites-acl-head-and-tree-heads")
		sentAll = append(sentAll, sent)
		texts = append(texts, text)
	}

	// every current member reads the originals back; an account without the key reads nothing
	payload := RawChangesPayload{NewHeads: []string{sentAll[len(sentAll)-1].Id}, RawChanges: sentAll}
	for _, reader := range []string{"own", "a", "c"} {
		racl := vC05tAcl(aclRoot, reader, recs)
		rtree := vC05tTree(treeRoot, racl)
		_, err := rtree.AddRawChanges(ctx, payload)
		rt.Assert(err == nil, "reader-accepts-the-changes")
		got, err := vC05tRead(rtree)
		if reader == "c" {
			rt.Assert(err != nil && len(got) == 0, "account-without-the-key-reads-nothing")
			continue
		}
		rt.Assert(err == nil && len(got) == len(texts), "member-reads-every-change")
		for i := range got {
			rt.Assert(got[i] == texts[i], "member-reads-the-original")
		}
	}
	// the writer's own open tree reads them back too
	got, err := vC05tRead(wt)
	rt.Assert(err == nil && len(got) == len(texts), "writer-reads-its-own-changes")
	sent := sentAll[len(sentAll)-1]

	// building an encrypted change without a key fails instead of emitting plaintext
	_, raw, err := wt.changeBuilder.Build(BuilderContent{TreeHeadIds: []string{sent.Id}, AclHeadId: ownAcl.Head().Id, SnapshotBaseId: treeRoot.Id,
		PrivKey: own, Content: []byte("secret"), Timestamp: 3})
	rt.Assert(errors.Is(err, ErrMissingEncryptKey) && raw == nil, "encrypted-build-without-a-key-fails")
	rt.Reach("tree")
}
