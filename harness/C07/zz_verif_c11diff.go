//go:build verif

package ldiff

import (
	"context"

	rt "github.com/anyproto/any-sync/internal/verifrt"
)

// A hostile remote (C11): it answers every range request with whatever it likes - any count, its elements or
// none, a hash equal to ours or not.  Diff / CompareDiff against it end (with a result or an error) after a
// number of rounds bounded by our own index; they do not keep asking for ever.
type vC11Remote struct {
	local    *diff
	rounds   int
	max      int
	strategy int
	count    int
}

func (r *vC11Remote) Ranges(ctx context.Context, ranges []Range, resBuf []RangeResult) ([]RangeResult, error) {
	r.rounds++
	if r.rounds > r.max {
		rt.Assert(false, "diff-against-a-hostile-remote-terminates")
		return nil, context.Canceled
	}
	out := resBuf[:0]
	for i := range ranges {
		var rr RangeResult
		switch r.strategy {
		case 0: // another hash, the announced count, never any element
			rr = RangeResult{Hash: []byte("zz"), Count: r.count}
		case 1: // elements only when not asked for them
			rr = RangeResult{Hash: []byte("zz"), Count: r.count}
			if !ranges[i].Elements {
				rr.Count = 1
				rr.Elements = []Element{{Id: "x", Head: "h"}}
			}
		default: // fewer elements than announced
			rr = RangeResult{Hash: []byte("zz"), Count: r.count, Elements: []Element{{Id: "x", Head: "h"}}}
		}
		out = append(out, rr)
	}
	return out, nil
}

func VerifC11DiffRemote() {
	u := rt.Param("u", 2)
	df := rt.Param("d", 2)
	th := rt.Param("t", 1)
	depth := rt.Param("depth", 2)
	ids := vC07Setup(u, depth*vC07Log2(df))
	d1 := newDiff(df, th).(*diff)
	var els []Element
	for i := 0; i < u; i++ {
		els = append(els, Element{Id: ids[i], Head: "h"})
	}
	d1.Set(els...)
	// one strategy and one announced count per run: the remote is consistent in its lie
	rem := &vC11Remote{local: d1, max: rt.Param("rounds", 8), strategy: rt.Choose(3), count: rt.IntRange(0, 5)}
	var err error
	if rt.Param("variant", 0) == 0 {
		_, _, _, err = d1.Diff(context.Background(), rem)
	} else {
		_, _, _, _, err = d1.CompareDiff(context.Background(), rem)
	}
	if err != nil {
		rt.Reach("refused")
	} else {
		rt.Reach("answered")
	}
}

// VerifC07Boundary: two one-element indexes whose (id, head) pairs differ but concatenate to the same bytes.
func VerifC07Boundary() {
	vC07Setup(0, 1)
	d1 := newDiff(2, 1).(*diff)
	d2 := newDiff(2, 1).(*diff)
	d1.Set(Element{Id: "ab", Head: "c"})
	d2.Set(Element{Id: "a", Head: "bc"})
	newIds, changedIds, removedIds, err := d1.Diff(context.Background(), d2)
	rt.Assert(err == nil, "diff-no-error")
	rt.Assert(len(newIds) == 1 && len(removedIds) == 1 && len(changedIds) == 0, "ids-that-differ-are-reported-whatever-their-lengths")
	rt.Reach("diffed")
}

// VerifC07Reshape: a local index that went through "two ids, one removed, the other's head updated, a third
// id added" - the history in which sub-ranges are divided, merged and divided again - diffs exactly against
// every remote holding any subset of the three ids with arbitrary heads.
func VerifC07Reshape() {
	df := rt.Param("d", 2)
	th := rt.Param("t", 1)
	depth := rt.Param("depth", 3)
	ids := vC07Setup(3, depth*vC07Log2(df))
	d1 := newDiff(df, th).(*diff)
	d2 := newDiff(df, th).(*diff)
	hx1, hx2, hw := rt.String(1), rt.String(1), rt.String(1)
	d1.Set(Element{Id: ids[0], Head: hx1}, Element{Id: ids[1], Head: "y"})
	rt.Assert(d1.RemoveId(ids[1]) == nil, "remove-known-id")
	d1.Set(Element{Id: ids[0], Head: hx2})
	d1.Set(Element{Id: ids[2], Head: hw})
	in1 := []bool{true, false, true}
	h1 := []string{hx2, "", hw}
	in2 := make([]bool, 3)
	h2 := make([]string, 3)
	var e2 []Element
	for i := 0; i < 3; i++ {
		in2[i] = rt.Choose(2) == 1
		if in2[i] {
			h2[i] = rt.String(1)
			e2 = append(e2, Element{Id: ids[i], Head: h2[i]})
		}
	}
	d2.Set(e2...)
	newIds, changedIds, removedIds, err := d1.Diff(context.Background(), d2)
	rt.Assert(err == nil, "diff-no-error")
	for i := 0; i < 3; i++ {
		rt.Assert(vC07Count(newIds, ids[i]) == vC07B2I(!in1[i] && in2[i]), "diff-new-exact")
		rt.Assert(vC07Count(removedIds, ids[i]) == vC07B2I(in1[i] && !in2[i]), "diff-removed-exact")
		rt.Assert(vC07Count(changedIds, ids[i]) == vC07B2I(in1[i] && in2[i] && h1[i] != h2[i]), "diff-changed-exact")
	}
	rt.Reach("diffed")
}
