//go:build verif

package ldiff

import (
	"context"

	"github.com/cespare/xxhash"

	rt "github.com/anyproto/any-sync/internal/verifrt"
)

func vC07Setup(u, bits int) []string {
	xxhash.VerifSum64 = func(b []byte) uint64 { return rt.UF64("xxhash", b) }
	ids := rt.Atoms(u, 2)
	for i := 0; i < u; i++ {
		for j := i + 1; j < u; j++ {
			hi, hj := xxhash.Sum64([]byte(ids[i])), xxhash.Sum64([]byte(ids[j]))
			rt.Assume(hi>>(64-uint(bits)) != hj>>(64-uint(bits)))
		}
	}
	return ids
}

func vC07Log2(d int) int {
	n := 0
	for (1 << uint(n)) < d {
		n++
	}
	return n
}

func vC07Count(list []string, id string) int {
	n := 0
	for _, s := range list {
		if s == id {
			n++
		}
	}
	return n
}

func vC07B2I(b bool) int {
	if b {
		return 1
	}
	return 0
}

// VerifC07Diff: Diff and CompareDiff report exactly the differing ids.
func VerifC07Diff() {
	u := rt.Param("u", 3)
	df := rt.Param("d", 2)
	th := rt.Param("t", 1)
	depth := rt.Param("depth", 2)
	variant := rt.Param("variant", 0) // 0 = Diff, 1 = CompareDiff
	ids := vC07Setup(u, depth*vC07Log2(df))

	d1 := newDiff(df, th).(*diff)
	d2 := newDiff(df, th).(*diff)
	in1 := make([]bool, u)
	in2 := make([]bool, u)
	h1 := make([]string, u)
	h2 := make([]string, u)
	hist := rt.Param("hist", 0) // 1: ids of the local side may have been added and removed again
	var e1, e2 []Element
	var removed []int
	for i := 0; i < u; i++ {
		st1 := rt.Choose(2 + hist)
		in1[i] = st1 == 1
		in2[i] = rt.Choose(2) == 1
		if st1 >= 1 {
			h1[i] = rt.String(1)
			e1 = append(e1, Element{Id: ids[i], Head: h1[i]})
			if st1 == 2 {
				removed = append(removed, i)
			}
		}
		if in2[i] {
			h2[i] = rt.String(1)
			e2 = append(e2, Element{Id: ids[i], Head: h2[i]})
		}
	}
	d1.Set(e1...)
	for _, i := range removed {
		rt.Assert(d1.RemoveId(ids[i]) == nil, "remove-known-id")
	}
	d2.Set(e2...)
	if hist == 1 {
		// removals of ids the remote side does not hold: refused, and the index stays as it was
		for i := 0; i < u; i++ {
			if in2[i] {
				continue
			}
			for k := rt.Choose(3); k > 0; k-- {
				rt.Assert(d2.RemoveId(ids[i]) == ErrElementNotFound, "remove-unknown-id-refused")
			}
		}
	}
	ctx := context.Background()
	if variant == 0 {
		newIds, changedIds, removedIds, err := d1.Diff(ctx, d2)
		rt.Assert(err == nil, "diff-no-error")
		for i := 0; i < u; i++ {
			rt.Assert(vC07Count(newIds, ids[i]) == vC07B2I(!in1[i] && in2[i]), "diff-new-exact")
			rt.Assert(vC07Count(removedIds, ids[i]) == vC07B2I(in1[i] && !in2[i]), "diff-removed-exact")
			rt.Assert(vC07Count(changedIds, ids[i]) == vC07B2I(in1[i] && in2[i] && h1[i] != h2[i]), "diff-changed-exact")
		}
		rt.Assert(len(newIds)+len(changedIds)+len(removedIds) <= u, "diff-nothing-else")
		rt.Reach("diffed")
		return
	}
	newIds, ourChanged, theirChanged, removedIds, err := d1.CompareDiff(ctx, d2)
	rt.Assert(err == nil, "cdiff-no-error")
	for i := 0; i < u; i++ {
		both := in1[i] && in2[i]
		rt.Assert(vC07Count(newIds, ids[i]) == vC07B2I(!in1[i] && in2[i]), "cdiff-new-exact")
		rt.Assert(vC07Count(removedIds, ids[i]) == vC07B2I(in1[i] && !in2[i]), "cdiff-removed-exact")
		rt.Assert(vC07Count(theirChanged, ids[i]) == vC07B2I(both && h2[i] > h1[i]), "cdiff-their-greater-exact")
		rt.Assert(vC07Count(ourChanged, ids[i]) == vC07B2I(both && h1[i] > h2[i]), "cdiff-our-greater-exact")
	}
	rt.Assert(len(newIds)+len(ourChanged)+len(theirChanged)+len(removedIds) <= u, "cdiff-nothing-else")
	rt.Reach("diffed")
}
