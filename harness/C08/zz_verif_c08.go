//go:build verif

package ldiff

import (
	"context"

	"github.com/cespare/xxhash"

	rt "github.com/anyproto/any-sync/internal/verifrt"
)

// vLdiffSetup installs the uninterpreted xxhash and returns u distinct ids
// whose hashes are pairwise distinct (A1) and pairwise differ within their top
// `bits` bits (A2: bounds the depth to which ranges can be forced to split).
func vLdiffSetup(u, bits int) []string {
	xxhash.VerifSum64 = func(b []byte) uint64 { return rt.UF64("xxhash", b) }
	ids := rt.Atoms(u, 2)
	for i := 0; i < u; i++ {
		for j := i + 1; j < u; j++ {
			hi, hj := xxhash.Sum64([]byte(ids[i])), xxhash.Sum64([]byte(ids[j]))
			rt.Assume(hi>>(64-uint(bits)) != hj>>(64-uint(bits)))
		}
	}
	return ids
}

func vLog2(d int) int {
	n := 0
	for (1 << uint(n)) < d {
		n++
	}
	return n
}

// vCheckInvariant: representation invariant of hashRanges after an operation.
func vCheckInvariant(d *diff, tag string) {
	h := d.ranges
	rt.Assert(len(h.dirty) == 0, tag+"-no-dirty-range")
	for tuple, rng := range h.ranges {
		// count stored elements in the range
		cnt := 0
		for e := d.sl.Front(); e != nil; e = e.Next() {
			hv := e.Key().(*element).hash
			if hv >= tuple.from && hv <= tuple.to {
				cnt++
			}
		}
		rt.Assert(rng.elements == cnt, tag+"-range-count")
		if rng != h.topRange {
			rt.Assert(rng.isDivided == (cnt > h.compareThreshold), tag+"-divided-iff-over-threshold")
			// no orphans: a range is indexed only while its parent is divided
			rt.Assert(rng.parent != nil && rng.parent.isDivided, tag+"-range-indexed-only-under-divided-parent")
		}
		if !rng.isDivided {
			// a leaf advertises the hash of exactly the elements it spans
			want, _ := h.calcElementsHash(tuple.from, tuple.to)
			rt.Assert(string(rng.hash) == string(want), tag+"-leaf-hash-is-hash-of-its-elements")
		}
	}
}

// VerifC08History: the advertised hash (and range answers) after any sequence
// of Set/RemoveId equal those of an index freshly filled with the same contents.
func VerifC08History() {
	u := rt.Param("u", 3)
	k := rt.Param("k", 3)
	df := rt.Param("d", 2)
	th := rt.Param("t", 1)
	depth := rt.Param("depth", 2)
	ids := vLdiffSetup(u, depth*vLog2(df))

	d := newDiff(df, th).(*diff)
	present := make([]bool, u)
	heads := make([]string, u)
	for step := 0; step < k; step++ {
		op := rt.Choose(2)
		i := rt.Choose(u)
		switch op {
		case 0: // Set (new id or existing id with a new head)
			hd := rt.String(1)
			d.Set(Element{Id: ids[i], Head: hd})
			present[i], heads[i] = true, hd
		case 1:
			err := d.RemoveId(ids[i])
			rt.Assert((err == nil) == present[i], "remove-reports-presence")
			present[i] = false
		}
		vCheckInvariant(d, "step")
	}
	var els []Element
	for i := 0; i < u; i++ {
		if present[i] {
			els = append(els, Element{Id: ids[i], Head: heads[i]})
		}
	}
	fresh := newDiff(df, th).(*diff)
	fresh.Set(els...)
	vCheckInvariant(fresh, "fresh")
	rt.Assert(d.Len() == len(els), "len-equals-contents")
	rt.Assert(d.Hash() == fresh.Hash(), "hash-independent-of-history")
	// every range the fresh index knows is answered identically
	var rs []Range
	for tuple := range fresh.ranges.ranges {
		rs = append(rs, Range{From: tuple.from, To: tuple.to})
	}
	a, _ := d.Ranges(context.Background(), rs, nil)
	b, _ := fresh.Ranges(context.Background(), rs, nil)
	for i := range rs {
		rt.Assert(a[i].Count == b[i].Count, "range-count-independent-of-history")
		rt.Assert(string(a[i].Hash) == string(b[i].Hash), "range-hash-independent-of-history")
	}
	rt.Reach("compared")
}
