//go:build verif

package cidutil

import (
	"github.com/ipfs/go-cid"
	mbase "github.com/multiformats/go-multibase"
	mh "github.com/multiformats/go-multihash"

	rt "github.com/anyproto/any-sync/internal/verifrt"
)

// VerifC02Cid: an id is accepted for some bytes only if it is exactly the content-hash string NewCidFromBytes
// gives for them - not another encoding of the same digest (other codec, CID version, multibase, letter case),
// not a prefix or an extension of it, not the id of other bytes.
func VerifC02Cid() {
	// SHA-256 itself is not the subject (and its block function is assembly): the digest is a deterministic stand-in,
	// distinct for the byte strings used here; the multihash / CID / multibase encodings around it are the real code.
	// (native replays use the real SHA-256: nothing below depends on the digest's value.)
	rt.Replace("github.com/multiformats/go-multihash.Sum", func(data []byte, code uint64, length int) (mh.Multihash, error) {
		digest := make([]byte, 32)
		for i := range digest {
			digest[i] = byte(7*i + 3*len(data))
		}
		for i, b := range data {
			digest[i%32] ^= b + byte(i)
		}
		return mh.Encode(digest, code)
	})
	data := [][]byte{[]byte("change-bytes"), {}, {0}}[rt.Choose(3)]
	canonical, err := NewCidFromBytes(data)
	rt.Assert(err == nil && len(canonical) > 0, "content-hash-exists")
	c, err := cid.Decode(canonical)
	rt.Assert(err == nil, "content-hash-decodes")
	other, _ := NewCidFromBytes([]byte("other-bytes"))
	upper := []byte(canonical)
	for i := 1; i < len(upper); i++ {
		if upper[i] >= 'a' && upper[i] <= 'z' {
			upper[i] -= 32
		}
	}
	upper[0] = 'B'
	b58, _ := c.StringOfBase(mbase.Base58BTC)
	b64, _ := c.StringOfBase(mbase.Base64)
	flipped := []byte(canonical)
	if flipped[len(flipped)-1] == 'a' {
		flipped[len(flipped)-1] = 'b'
	} else {
		flipped[len(flipped)-1] = 'a'
	}
	ids := []string{
		canonical,
		cid.NewCidV1(cid.Raw, c.Hash()).String(),
		cid.NewCidV1(cid.DagProtobuf, c.Hash()).String(),
		cid.NewCidV0(c.Hash()).String(),
		string(upper),
		b58,
		b64,
		string(flipped),
		canonical[:len(canonical)-1],
		canonical + "a",
		canonical[1:],
		"",
		other,
	}
	k := rt.Choose(len(ids))
	rt.Assert(VerifyCid(data, ids[k]) == (ids[k] == canonical), "id-accepted-iff-it-is-the-content-hash-string")
	rt.Assert(ids[k] == canonical == (k == 0), "alternatives-differ-from-the-content-hash")
	rt.Reach("cid")
}
