//go:build verif

package objecttree

import (
	"context"
	"errors"

	libcrypto2 "github.com/libp2p/go-libp2p/core/crypto"

	"github.com/anyproto/any-sync/commonspace/object/acl/list"
	"github.com/anyproto/any-sync/commonspace/object/tree/treechangeproto"
	rt "github.com/anyproto/any-sync/internal/verifrt"
	"github.com/anyproto/any-sync/util/crypto"
)

// ---- (a) Unmarshall(verify=true): id is the content hash, signature verifies under the named identity

type vC02Pub struct{ id string }

func (k *vC02Pub) Equals(o crypto.Key) bool {
	p, ok := o.(*vC02Pub)
	return ok && p.id == k.id
}
func (k *vC02Pub) Raw() ([]byte, error)             { return []byte(k.id), nil }
func (k *vC02Pub) Encrypt(m []byte) ([]byte, error) { return m, nil }
func (k *vC02Pub) Verify(d []byte, s []byte) (bool, error) {
	return rt.UFBool("verify", k.id, d, s), nil
}
func (k *vC02Pub) Marshall() ([]byte, error)               { return []byte(k.id), nil }
func (k *vC02Pub) Storage() []byte                         { return []byte(k.id) }
func (k *vC02Pub) Account() string                         { return k.id }
func (k *vC02Pub) Network() string                         { return k.id }
func (k *vC02Pub) PeerId() string                          { return k.id }
func (k *vC02Pub) LibP2P() (libcrypto2.PubKey, error)      { return nil, errors.New("n/a") }

type vC02KS struct{}

func (vC02KS) PubKeyFromProto(b []byte) (crypto.PubKey, error) {
	if len(b) == 0 {
		return nil, errors.New("verif: empty key")
	}
	return &vC02Pub{id: string(b)}, nil
}

func VerifC02Unmarshall() {
	// engine-only stub: the content hash check is an uninterpreted predicate of (bytes, id)
	rt.Replace("github.com/anyproto/any-sync/util/cidutil.VerifyCid", func(data []byte, id string) bool {
		return rt.UFBool("cid", data, id)
	})
	rootPayload, _ := (&treechangeproto.RootChange{AclHeadId: "acl0", Identity: []byte("own"), IsDerived: rt.Choose(2) == 1}).MarshalVT()
	rootRaw, _ := (&treechangeproto.RawTreeChange{Payload: rootPayload, Signature: []byte("rs")}).MarshalVT()
	root := &treechangeproto.RawTreeChangeWithId{RawChange: rootRaw, Id: "rootid"}
	cb := NewChangeBuilder(vC02KS{}, root)

	isRoot := rt.Choose(2) == 1
	var raw *treechangeproto.RawTreeChangeWithId
	var payload, sig []byte
	identity := []string{"w1", "w2"}[rt.Choose(2)]
	if isRoot {
		raw = root
		payload, sig = rootPayload, []byte("rs")
		identity = "own"
	} else {
		payload, _ = (&treechangeproto.TreeChange{TreeHeadIds: []string{"rootid"}, AclHeadId: "acl0", SnapshotBaseId: "rootid",
			ChangesData: rt.Bytes(2), Identity: []byte(identity), IsSnapshot: rt.Choose(2) == 1}).MarshalVT()
		sig = rt.Bytes(2)
		rawBytes, _ := (&treechangeproto.RawTreeChange{Payload: payload, Signature: sig}).MarshalVT()
		raw = &treechangeproto.RawTreeChangeWithId{RawChange: rawBytes, Id: []string{"c1", "c2"}[rt.Choose(2)]}
	}
	// the builder is reused across calls: a previous call must leave nothing behind that the
	// next raw change could borrow (a field absent from its own bytes)
	prior := rt.Choose(3)
	if prior > 0 && !isRoot {
		pp, _ := (&treechangeproto.TreeChange{TreeHeadIds: []string{"rootid"}, AclHeadId: "acl0", SnapshotBaseId: "rootid", Identity: []byte("w1")}).MarshalVT()
		prb, _ := (&treechangeproto.RawTreeChange{Payload: pp, Signature: []byte("ps")}).MarshalVT()
		_, _ = cb.Unmarshall(&treechangeproto.RawTreeChangeWithId{RawChange: prb, Id: "c0"}, true)
		// this raw change omits one of its two fields on the wire
		var rb []byte
		if prior == 1 {
			payload = nil
			rb, _ = (&treechangeproto.RawTreeChange{Signature: sig}).MarshalVT()
		} else {
			sig = nil
			rb, _ = (&treechangeproto.RawTreeChange{Payload: payload}).MarshalVT()
		}
		raw = &treechangeproto.RawTreeChangeWithId{RawChange: rb, Id: raw.Id}
		rt.Reach("reused-builder")
	}
	ch, err := cb.Unmarshall(raw, true)
	if err != nil {
		rt.Reach("rejected")
		return
	}
	rt.Reach("accepted")
	rt.Assert(rt.UFBool("cid", raw.RawChange, raw.Id), "accepted-id-is-content-hash")
	if isRoot && ch.IsDerived {
		rt.Reach("derived-root-unsigned")
	} else {
		rt.Assert(rt.UFBool("verify", identity, payload, sig), "accepted-signature-verifies-under-named-identity")
		rt.Assert(ch.Identity != nil && string(ch.Identity.Storage()) == identity, "identity-is-the-one-named")
	}
	rt.Assert(ch.Id == raw.Id, "id-preserved")
}

// ---- (b),(c) validateChange: permission in effect at the cited ACL record, cited record known and not older than the parents'

func VerifC02Validate() {
	nRec := rt.Param("records", 4)
	nHist := rt.Param("history", 3)
	aclIds := []string{"acl0", "acl1", "acl2", "acl3", "acl4", "acl5"}[:nRec]
	// permission history of the author: monotone record indexes, arbitrary permission values
	var since []int
	var perms []list.AclPermissions
	var permVals []int32
	h := rt.Choose(nHist + 1)
	last := 0
	for i := 0; i < h; i++ {
		idx := last + rt.Choose(nRec-last)
		last = idx
		since = append(since, idx)
		p := rt.I32()
		permVals = append(permVals, p)
		perms = append(perms, list.AclPermissions(p))
	}
	hasAccount := h > 0 || rt.Choose(2) == 1
	var accounts []list.VerifPerm
	if hasAccount {
		accounts = append(accounts, list.VerifPerm{Key: &vC02Pub{id: "w"}, Since: since, Perms: perms})
	}
	acl := list.VerifNewAcl(aclIds, accounts)

	cited := rt.Choose(nRec + 1) // nRec = a record this replica does not know
	citedId := "unknown"
	if cited < nRec {
		citedId = aclIds[cited]
	}
	parentIdx := rt.Choose(nRec)
	parentDerived := rt.Choose(2) == 1
	rootCh := &Change{Id: "root", IsSnapshot: true, AclHeadId: aclIds[0]}
	parent := &Change{Id: "p", PreviousIds: []string{"root"}, SnapshotId: "root", AclHeadId: aclIds[parentIdx], IsDerived: parentDerived}
	tree := &Tree{}
	c := &Change{Id: "c", PreviousIds: []string{"p"}, SnapshotId: "root", AclHeadId: citedId, Identity: &vC02Pub{id: "w"}}
	// optionally a merge: a second parent with its own cited record
	parent2Idx, parent2Derived, merge := 0, true, false
	if rt.Param("parents", 2) >= 2 && rt.Choose(2) == 1 {
		merge = true
		parent2Idx = rt.Choose(nRec)
		parent2Derived = rt.Choose(2) == 1
		parent2 := &Change{Id: "q", PreviousIds: []string{"root"}, SnapshotId: "root", AclHeadId: aclIds[parent2Idx], IsDerived: parent2Derived}
		tree.AddFast(rootCh, parent, parent2)
		c.PreviousIds = []string{"p", "q"}
	} else {
		tree.AddFast(rootCh, parent)
	}
	v := newTreeValidator(false, false).(*objectTreeValidator)
	err := v.validateChange(tree, acl, c)

	// reference: permission of the last change at or before the cited record (front scan)
	refPerm := int32(0)
	for i := 0; i < h; i++ {
		if cited < nRec && since[i] <= cited {
			refPerm = permVals[i]
		}
	}
	canWrite := rt.AnyOf(refPerm == 1, refPerm == 2, refPerm == 3)
	okOrder := parentDerived || parentIdx == cited || cited >= parentIdx
	if merge {
		okOrder = okOrder && (parent2Derived || parent2Idx == cited || cited >= parent2Idx)
	}
	want := rt.AllOf(cited < nRec, hasAccount, canWrite, okOrder)
	rt.Assert((err == nil) == want, "accepted-iff-writer-at-cited-known-record-not-older-than-parents")
	if err == nil {
		rt.Reach("accepted")
	} else {
		rt.Reach("rejected")
	}
}

// ---- (d) a batch rejected by validation leaves heads, iteration and storage as they were

type vC02Validator struct {
	inner ObjectTreeValidator
}

func VerifC02Rollback() {
	n := rt.Param("batch", 2)
	b := newVBuilder()
	ids := rt.Atoms(n+4, 2)
	b.nextIds = ids[1:2]
	ctx := context.Background()
	r, err := vNewReplica(ids[0], b, "w")
	rt.Assert(err == nil, "open")
	// the real validator with a content check that refuses changes carrying the marker
	r.ot.validator = NewTreeValidatorWithContentCheck(false, false, func(c *Change, a list.AclList) error {
		if len(c.Data) > 0 && c.Data[0] == 'X' {
			return errors.New("verif: refused content")
		}
		return nil
	})
	_, err = r.ot.AddContent(ctx, SignableChangeContent{Data: []byte("d"), Key: &vTreeKey{id: "w"}, Timestamp: 1, DataType: "t"})
	rt.Assert(err == nil, "setup-add")
	preHeads := append([]string{}, r.ot.Heads()...)
	preSeq := vSeqIds(r.ot.tree)
	preStored := len(r.store.changes)

	// a batch: a chain on top of the current head, or forking from the older root; one member may be refused
	var raws []*treechangeproto.RawTreeChangeWithId
	prev := []string{ids[1], ids[0]}[rt.Choose(2)]
	anyBad := false
	for j := 0; j < n; j++ {
		bad := rt.Choose(2) == 1
		data := []byte("ok")
		if bad {
			data = []byte("X")
			anyBad = true
		}
		c := &Change{Id: ids[2+j], PreviousIds: []string{prev}, SnapshotId: ids[0], AclHeadId: "acl0", Identity: &vTreePub{id: "w"}, Data: data}
		raws = append(raws, b.register(c, 1))
		prev = ids[2+j]
	}
	// arrival order inside the batch is arbitrary
	avail := append([]*treechangeproto.RawTreeChangeWithId{}, raws...)
	raws = raws[:0]
	for len(avail) > 0 {
		k := rt.Choose(len(avail))
		raws = append(raws, avail[k])
		avail = append(avail[:k], avail[k+1:]...)
	}
	_, err = r.ot.AddRawChanges(ctx, RawChangesPayload{NewHeads: []string{prev}, RawChanges: raws})
	rt.Assert((err != nil) == anyBad, "batch-rejected-iff-some-change-invalid")
	if err != nil {
		rt.Assert(vSameSet(r.ot.Heads(), preHeads), "rejected-batch-leaves-heads")
		seq := vSeqIds(r.ot.tree)
		rt.Assert(len(seq) == len(preSeq), "rejected-batch-leaves-iteration")
		for i := range seq {
			if i < len(preSeq) {
				rt.Assert(seq[i] == preSeq[i], "rejected-batch-leaves-iteration")
			}
		}
		rt.Assert(len(r.store.changes) == preStored, "rejected-batch-leaves-storage")
		for _, raw := range raws {
			rt.Assert(!r.ot.HasChanges(raw.Id), "rejected-changes-not-attached")
		}
		// and the tree still accepts a local change afterwards, on top of the old head
		b.nextIds = append(b.nextIds, ids[n+3])
		res, err2 := r.ot.AddContent(ctx, SignableChangeContent{Data: []byte("d"), Key: &vTreeKey{id: "w"}, Timestamp: 1, DataType: "t"})
		rt.Assert(err2 == nil, "tree-usable-after-rejection")
		if err2 == nil {
			rt.Assert(len(res.Added) == 1 && len(res.Added[0].PrevIds) == 1 && res.Added[0].PrevIds[0] == ids[1], "next-change-builds-on-old-head")
			// and the rejected changes have left no trace: heads and iteration are the old ones plus the new change
			rt.Assert(len(r.ot.Heads()) == 1 && r.ot.Heads()[0] == ids[n+3], "heads-after-rejection-are-the-new-change-only")
			seq2 := vSeqIds(r.ot.tree)
			rt.Assert(len(seq2) == len(preSeq)+1, "iteration-after-rejection-has-no-rejected-change")
			for _, raw := range raws {
				rt.Assert(vIndexOf(seq2, raw.Id) < 0, "iteration-after-rejection-has-no-rejected-change")
			}
		}
		rt.Reach("rejected")
	} else {
		rt.Assert(len(r.store.changes) == preStored+n, "valid-batch-stored")
		rt.Reach("accepted")
	}
}

// VerifC02Pending: a change that arrived earlier and could not attach (its parent was missing) gives later
// deliveries under the same id no credit: bytes that do not belong to the id are refused, nothing of them
// is attached or stored, whether or not the genuine change was seen before.
func VerifC02Pending() {
	b := newVBuilder()
	b.strict = true
	ids := rt.Atoms(4, 2)
	b.nextIds = ids[3:]
	ctx := context.Background()
	r, err := vNewReplica(ids[0], b, "w")
	rt.Assert(err == nil, "open")
	c1 := b.register(&Change{Id: ids[1], PreviousIds: []string{ids[0]}, SnapshotId: ids[0], AclHeadId: "acl0", Identity: &vTreePub{id: "w"}, Data: []byte("a")}, 1)
	c2 := b.register(&Change{Id: ids[2], PreviousIds: []string{ids[1]}, SnapshotId: ids[0], AclHeadId: "acl0", Identity: &vTreePub{id: "w"}, Data: []byte("b")}, 1)
	if rt.Bool() {
		// the genuine c2 arrives alone first: verified, but its parent is unknown
		_, _ = r.ot.AddRawChanges(ctx, RawChangesPayload{NewHeads: []string{c2.Id}, RawChanges: []*treechangeproto.RawTreeChangeWithId{c2}})
		rt.Assert(!r.ot.HasChanges(c2.Id), "change-without-parent-does-not-attach")
		rt.Reach("pending")
	}
	second := c2
	tampered := rt.Bool()
	if tampered {
		second = &treechangeproto.RawTreeChangeWithId{Id: c2.Id, RawChange: []byte{1}}
	}
	preStored := len(r.store.changes)
	_, err = r.ot.AddRawChanges(ctx, RawChangesPayload{NewHeads: []string{c2.Id}, RawChanges: []*treechangeproto.RawTreeChangeWithId{c1, second}})
	if tampered {
		rt.Assert(err != nil, "bytes-that-do-not-belong-to-the-id-are-refused")
		rt.Assert(!r.ot.HasChanges(c2.Id), "tampered-change-not-attached")
		if sc, ok := r.store.changes[c2.Id]; ok {
			rt.Assert(len(sc.RawChange) == 1 && sc.RawChange[0] == 0, "tampered-bytes-not-stored")
		}
		rt.Assert(len(r.store.changes) == preStored || err == nil, "refused-batch-leaves-storage")
		rt.Reach("tampered")
	} else {
		rt.Assert(err == nil && r.ot.HasChanges(c2.Id), "genuine-change-accepted")
		rt.Reach("genuine")
	}
}

// VerifC02Rebuild: a refused change whose parent lies before the in-memory tree's root (the tree was reduced to
// a later snapshot), so that adding it goes through a rebuild from storage: the refusal leaves heads,
// iteration and storage exactly as they were, and the change is not attached.
func VerifC02Rebuild() {
	b := newVBuilder()
	ids := rt.Atoms(6, 2)
	b.nextIds = ids[1:4]
	ctx := context.Background()
	r, err := vNewReplica(ids[0], b, "w")
	rt.Assert(err == nil, "open")
	for i, snap := range []bool{false, true, false} {
		_, err = r.ot.AddContent(ctx, SignableChangeContent{Data: []byte("d"), Key: &vTreeKey{id: "w"}, IsSnapshot: snap, Timestamp: 1, DataType: "t"})
		rt.Assert(err == nil, "setup-add")
		_ = i
	}
	rt.Assert(r.ot.tree.RootId() == ids[2], "tree-reduced-to-the-snapshot")
	// the rebuild validates the whole tree, the root included: give the root an author as a real root has
	b.table[ids[0]].Identity = &vTreePub{id: "w"}
	b.table[ids[0]].AclHeadId = "acl0"
	r.ot.validator = NewTreeValidatorWithContentCheck(false, false, func(c *Change, a list.AclList) error {
		if len(c.Data) > 0 && c.Data[0] == 'X' {
			return errors.New("verif: refused content")
		}
		return nil
	})
	bad := rt.Bool()
	data := []byte("ok")
	if bad {
		data = []byte("X")
	}
	x := b.register(&Change{Id: ids[4], PreviousIds: []string{ids[0]}, SnapshotId: ids[0], AclHeadId: "acl0", Identity: &vTreePub{id: "w"}, Data: data}, 1)
	preHeads := append([]string{}, r.ot.Heads()...)
	preSeq := vSeqIds(r.ot.tree)
	preStored := len(r.store.changes)
	_, err = r.ot.AddRawChanges(ctx, RawChangesPayload{NewHeads: []string{ids[4]}, RawChanges: []*treechangeproto.RawTreeChangeWithId{x}})
	if bad {
		rt.Assert(err != nil, "refused-change-is-reported")
		rt.Assert(vSameSet(r.ot.Heads(), preHeads), "rejected-change-leaves-heads")
		seq := vSeqIds(r.ot.tree)
		rt.Assert(len(seq) == len(preSeq), "rejected-change-leaves-iteration")
		rt.Assert(!r.ot.HasChanges(ids[4]), "rejected-change-not-attached")
		rt.Assert(len(r.store.changes) == preStored, "rejected-change-leaves-storage")
		rt.Reach("rejected")
	} else {
		rt.Assert(err == nil && r.ot.HasChanges(ids[4]), "valid-change-behind-the-root-is-attached")
		rt.Reach("accepted")
	}
}
