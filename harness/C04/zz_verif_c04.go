//go:build verif

package list

import (
	"github.com/anyproto/any-sync/commonspace/object/acl/aclrecordproto"
	"github.com/anyproto/any-sync/commonspace/object/acl/recordverifier"
	rt "github.com/anyproto/any-sync/internal/verifrt"
)

// One inductive step of the ACL state machine from an ARBITRARY state that
// satisfies the representation invariant I, under the fully validating
// validator.  Accounts a0..a3 are present with symbolic (permission, status);
// "zz" has never been seen.  By symmetry (every present account has fully
// symbolic attributes) the author is a0 or zz, targets are a0/a1/zz, request
// subjects are a0/a1/a2; a3 is a bystander that must never change.

const (
	vOwner  = int32(aclrecordproto.AclUserPermissions_Owner)
	vAdmin  = int32(aclrecordproto.AclUserPermissions_Admin)
	vWriter = int32(aclrecordproto.AclUserPermissions_Writer)
	vReader = int32(aclrecordproto.AclUserPermissions_Reader)
	vGuest  = int32(aclrecordproto.AclUserPermissions_Guest)
	vNone   = int32(aclrecordproto.AclUserPermissions_None)
)

var vC04Ids = []string{"a0", "a1", "a2", "a3", "zz"}

type vC04Snap struct {
	perm    [5]int32
	status  [5]int
	present [5]bool
	invPerm [2]int32
	invHas  [2]bool
	invType [2]int32
	nOpts   int
	pending [5]bool
}

func vC04Snapshot(st *AclState) (s vC04Snap) {
	for i, id := range vC04Ids {
		as, ok := st.accountStates[id]
		s.present[i] = ok
		s.perm[i] = int32(as.Permissions)
		s.status[i] = int(as.Status)
		_, s.pending[i] = st.pendingRequests[id]
	}
	for k, id := range []string{"i0", "i1"} {
		inv, ok := st.invites[id]
		s.invHas[k] = ok
		s.invPerm[k] = int32(inv.Permissions)
		s.invType[k] = int32(inv.Type)
	}
	s.nOpts = len(st.optionChanges)
	return
}

func vC04B(b bool) int {
	return rt.IteInt(b, 1, 0)
}

// vC04State builds an arbitrary state satisfying I.
func vC04State(nInv, nReq int) *AclState {
	st := &AclState{
		id:              "root",
		keys:            map[string]AclKeys{"root": {}},
		accountStates:   map[string]AccountState{},
		invites:         map[string]Invite{},
		requestRecords:  map[string]RequestRecord{},
		pendingRequests: map[string]string{},
		readKeyChanges:  []string{"root"},
		pubKey:          &vPub{id: "observer"},
		keyStore:        vKS{},
		lastRecordId:    "head",
	}
	st.contentValidator = newContentValidator(st.keyStore, st, recordverifier.NewValidateFull())
	owners := 0
	for i := 0; i < 4; i++ {
		p := rt.I32()
		s := rt.IntRange(0, 6)
		st.accountStates[vC04Ids[i]] = AccountState{
			PubKey:            &vPub{id: vC04Ids[i]},
			Permissions:       AclPermissions(p),
			Status:            AclStatus(s),
			KeyRecordId:       "root",
			PermissionChanges: []PermissionChange{{RecordId: "root", Permission: AclPermissions(p)}},
		}
		owners += vC04B(p == vOwner)
		// I: an owner is an active account
		rt.Assume(rt.AnyOf(p != vOwner, s == int(StatusActive)))
	}
	rt.Assume(owners == 1) // I: exactly one owner
	for k := 0; k < nInv; k++ {
		id := []string{"i0", "i1"}[k]
		switch rt.Choose(3) {
		case 1:
			st.invites[id] = Invite{Key: &vPub{id: "k" + id}, Id: id, Type: aclrecordproto.AclInviteType_RequestToJoin, Permissions: AclPermissions(rt.I32())}
		case 2:
			p := rt.I32()
			// I: open invites never carry None/Owner/Guest (enforced at creation and change)
			rt.Assume(rt.AllOf(p != vNone, p != vOwner, p != vGuest))
			st.invites[id] = Invite{Key: &vPub{id: "k" + id}, Id: id, Type: aclrecordproto.AclInviteType_AnyoneCanJoin, Permissions: AclPermissions(p), encryptedReadKey: []byte("erk")}
		}
	}
	used := map[int]bool{}
	for k := 0; k < nReq; k++ {
		id := []string{"q0", "q1"}[k]
		c := rt.Choose(4)
		if c == 0 {
			continue
		}
		who := c - 1 // a0, a1 or a2
		if used[who] {
			rt.Assume(false) // I: at most one pending request per identity
		}
		used[who] = true
		isJoin := rt.Bool()
		typ := RequestTypeRemove
		if isJoin {
			typ = RequestTypeJoin
		} else {
			// I: a pending removal request belongs to a non-owner member that asked for it
			as := st.accountStates[vC04Ids[who]]
			rt.Assume(rt.AllOf(int32(as.Permissions) != vOwner, int32(as.Permissions) != vNone, int32(as.Permissions) != vGuest))
		}
		st.requestRecords[id] = RequestRecord{RequestIdentity: &vPub{id: vC04Ids[who]}, KeyRecordId: "root", RecordId: id, Type: typ}
		st.pendingRequests[vC04Ids[who]] = id
	}
	return st
}

// correct read-key change for the current state minus the removed ids
func vC04ReadKeyChange(st *AclState, removed map[string]bool, correct bool) *aclrecordproto.AclReadKeyChange {
	ch := &aclrecordproto.AclReadKeyChange{
		MetadataPubKey:           []byte("mk"),
		EncryptedMetadataPrivKey: []byte("emk"),
		EncryptedOldReadKey:      []byte("eork"),
	}
	for _, id := range vC04Ids[:4] {
		as := st.accountStates[id]
		if as.Permissions.NoPermissions() || removed[id] {
			continue
		}
		ch.AccountKeys = append(ch.AccountKeys, &aclrecordproto.AclEncryptedReadKey{Identity: []byte(id), EncryptedReadKey: []byte("k")})
	}
	for _, id := range []string{"i0", "i1"} {
		if inv, ok := st.invites[id]; ok && inv.Type == aclrecordproto.AclInviteType_AnyoneCanJoin {
			ch.InviteKeys = append(ch.InviteKeys, &aclrecordproto.AclEncryptedReadKey{Identity: []byte("k" + id), EncryptedReadKey: []byte("k")})
		}
	}
	if !correct && len(ch.AccountKeys) > 0 {
		ch.AccountKeys = ch.AccountKeys[1:]
	}
	return ch
}

// vC04Content builds one content value of the chosen kind with arbitrary fields.
func vC04Content(st *AclState, kind int, author string, listLen int) *aclrecordproto.AclContentValue {
	target := func() string { return []string{"a0", "a1", "zz"}[rt.Choose(3)] }
	invId := func() string { return []string{"i0", "i1", "ix"}[rt.Choose(3)] }
	reqId := func() string { return []string{"q0", "q1", "qx"}[rt.Choose(3)] }
	perm := func() aclrecordproto.AclUserPermissions { return aclrecordproto.AclUserPermissions(rt.I32()) }
	cv := &aclrecordproto.AclContentValue{}
	switch kind {
	case 0:
		cv.Value = &aclrecordproto.AclContentValue_PermissionChange{PermissionChange: &aclrecordproto.AclAccountPermissionChange{Identity: []byte(target()), Permissions: perm()}}
	case 1:
		it := aclrecordproto.AclInviteType_RequestToJoin
		var erk []byte
		if rt.Choose(2) == 1 {
			it = aclrecordproto.AclInviteType_AnyoneCanJoin
			erk = []byte("erk")
		}
		cv.Value = &aclrecordproto.AclContentValue_Invite{Invite: &aclrecordproto.AclAccountInvite{InviteKey: []byte("knew"), InviteType: it, Permissions: perm(), EncryptedReadKey: erk}}
	case 2:
		cv.Value = &aclrecordproto.AclContentValue_InviteRevoke{InviteRevoke: &aclrecordproto.AclAccountInviteRevoke{InviteRecordId: invId()}}
	case 3:
		t, iv := target(), invId()
		sig := []byte("bad")
		if rt.Choose(2) == 1 {
			sig = []byte("S(k" + iv + ")" + t) // what the holder of the invite key signs: the joiner's identity
		}
		cv.Value = &aclrecordproto.AclContentValue_RequestJoin{RequestJoin: &aclrecordproto.AclAccountRequestJoin{InviteIdentity: []byte(t), InviteRecordId: iv, InviteIdentitySignature: sig}}
	case 4:
		cv.Value = &aclrecordproto.AclContentValue_RequestAccept{RequestAccept: &aclrecordproto.AclAccountRequestAccept{Identity: []byte([]string{"a0", "a1", "a2", "zz"}[rt.Choose(4)]), RequestRecordId: reqId(), EncryptedReadKey: []byte("erk"), Permissions: perm()}}
	case 5:
		cv.Value = &aclrecordproto.AclContentValue_RequestDecline{RequestDecline: &aclrecordproto.AclAccountRequestDecline{RequestRecordId: reqId()}}
	case 6:
		n := 1 + rt.Choose(listLen)
		rem := &aclrecordproto.AclAccountRemove{}
		removed := map[string]bool{}
		for i := 0; i < n; i++ {
			t := []string{"a0", "a1", "a2", "zz"}[rt.Choose(4)]
			rem.Identities = append(rem.Identities, []byte(t))
			removed[t] = true
		}
		rem.ReadKeyChange = vC04ReadKeyChange(st, removed, true)
		cv.Value = &aclrecordproto.AclContentValue_AccountRemove{AccountRemove: rem}
	case 7:
		cv.Value = &aclrecordproto.AclContentValue_ReadKeyChange{ReadKeyChange: vC04ReadKeyChange(st, nil, rt.Choose(2) == 0)}
	case 8:
		cv.Value = &aclrecordproto.AclContentValue_AccountRequestRemove{AccountRequestRemove: &aclrecordproto.AclAccountRequestRemove{}}
	case 9:
		n := 1 + rt.Choose(listLen)
		chs := &aclrecordproto.AclAccountPermissionChanges{}
		for i := 0; i < n; i++ {
			chs.Changes = append(chs.Changes, &aclrecordproto.AclAccountPermissionChange{Identity: []byte(target()), Permissions: perm()})
		}
		cv.Value = &aclrecordproto.AclContentValue_PermissionChanges{PermissionChanges: chs}
	case 10:
		n := 1 + rt.Choose(listLen)
		add := &aclrecordproto.AclAccountsAdd{}
		for i := 0; i < n; i++ {
			add.Additions = append(add.Additions, &aclrecordproto.AclAccountAdd{Identity: []byte(target()), Permissions: perm(), EncryptedReadKey: []byte("erk")})
		}
		cv.Value = &aclrecordproto.AclContentValue_AccountsAdd{AccountsAdd: add}
	case 11:
		cv.Value = &aclrecordproto.AclContentValue_RequestCancel{RequestCancel: &aclrecordproto.AclAccountRequestCancel{RecordId: reqId()}}
	case 12:
		t, iv := target(), invId()
		sig := []byte("bad")
		if rt.Choose(2) == 1 {
			sig = []byte("S(k" + iv + ")" + t)
		}
		cv.Value = &aclrecordproto.AclContentValue_InviteJoin{InviteJoin: &aclrecordproto.AclAccountInviteJoin{Identity: []byte(t), InviteRecordId: iv, InviteIdentitySignature: sig, EncryptedReadKey: []byte("erk"), Permissions: perm()}}
	case 13:
		cv.Value = &aclrecordproto.AclContentValue_InviteChange{InviteChange: &aclrecordproto.AclAccountInviteChange{InviteRecordId: invId(), Permissions: perm()}}
	case 14:
		cv.Value = &aclrecordproto.AclContentValue_OwnershipChange{OwnershipChange: &aclrecordproto.AclOwnershipChange{NewOwnerIdentity: []byte(target()), OldOwnerPermissions: perm()}}
	case 15:
		cv.Value = &aclrecordproto.AclContentValue_SpaceOptionsChange{SpaceOptionsChange: &aclrecordproto.AclSpaceOptionsChange{Options: &aclrecordproto.AclSpaceOptions{DeleteRestricted: rt.Bool()}}}
	}
	return cv
}

func vC04IsJoinKind(kinds []int) bool {
	for _, k := range kinds {
		if k != 12 {
			return false
		}
	}
	return true
}

// VerifC04Step: acceptance by the fully validating ACL implies the privilege rules.
func VerifC04Step() {
	nInv := rt.Param("inv", 1)
	nReq := rt.Param("req", 1)
	batch := rt.Param("batch", 1)
	listLen := rt.Param("list", 1)
	onlyKind := rt.Param("kind", -1)
	st := vC04State(nInv, nReq)
	pre := vC04Snapshot(st)

	ai := []int{0, 4}[rt.Choose(2)] // author: a present account with arbitrary attributes, or a never-seen identity
	author := vC04Ids[ai]
	data := &aclrecordproto.AclData{}
	var kinds []int
	nb := 1 + rt.Choose(batch)
	for b := 0; b < nb; b++ {
		k := onlyKind
		if k < 0 {
			k = rt.Choose(16)
		}
		kinds = append(kinds, k)
		data.AclContent = append(data.AclContent, vC04Content(st, k, author, listLen))
	}
	var twin *AclState
	if nb > 1 {
		twin = vC04Clone(st)
	}
	rec := &AclRecord{Id: "new", PrevId: "head", Identity: &vPub{id: author}, Model: data}
	err := st.ApplyRecord(rec)
	if err != nil {
		rt.Reach("rejected")
		return
	}
	rt.Reach("accepted")
	post := vC04Snapshot(st)
	if nb == 1 {
		vC04Rules(st, pre, post, ai, kinds, "new")
		return
	}
	// A batched record is validated and applied content by content, each against the state the
	// previous one left.  The rules are therefore checked per content: the twin state receives the
	// same contents as separate records of the same author, every step must satisfy the rules, and
	// the batched record must end exactly where the sequence ends.
	cur := pre
	for b := 0; b < nb; b++ {
		// the same record id, so that whatever a content registers under it is found by the next one
		one := &AclRecord{Id: "new", PrevId: twin.lastRecordId, Identity: &vPub{id: author}, Model: &aclrecordproto.AclData{AclContent: data.AclContent[b : b+1]}}
		if twin.ApplyRecord(one) != nil {
			rt.Assert(false, "batched-content-accepted-only-if-acceptable-alone")
			return
		}
		next := vC04Snapshot(twin)
		vC04Rules(twin, cur, next, ai, kinds[b:b+1], "new")
		cur = next
	}
	for i := 0; i < 5; i++ {
		rt.Assert(rt.AllOf(cur.perm[i] == post.perm[i], cur.status[i] == post.status[i], cur.present[i] == post.present[i], cur.pending[i] == post.pending[i]), "batch-equals-sequence")
	}
	for k := 0; k < 2; k++ {
		rt.Assert(rt.AllOf(cur.invHas[k] == post.invHas[k], cur.invPerm[k] == post.invPerm[k], cur.invType[k] == post.invType[k]), "batch-equals-sequence")
	}
	rt.Assert(cur.nOpts == post.nOpts, "batch-equals-sequence")
	rt.Reach("batch-compared")
}

func vC04Clone(st *AclState) *AclState {
	c := &AclState{
		id:              st.id,
		keys:            map[string]AclKeys{},
		accountStates:   map[string]AccountState{},
		invites:         map[string]Invite{},
		requestRecords:  map[string]RequestRecord{},
		pendingRequests: map[string]string{},
		readKeyChanges:  append([]string(nil), st.readKeyChanges...),
		pubKey:          st.pubKey,
		keyStore:        st.keyStore,
		lastRecordId:    st.lastRecordId,
	}
	for _, id := range []string{"root"} {
		c.keys[id] = st.keys[id]
	}
	for _, id := range vC04Ids {
		if as, ok := st.accountStates[id]; ok {
			as.PermissionChanges = append([]PermissionChange(nil), as.PermissionChanges...)
			c.accountStates[id] = as
		}
		if r, ok := st.pendingRequests[id]; ok {
			c.pendingRequests[id] = r
		}
	}
	for _, id := range []string{"i0", "i1"} {
		if v, ok := st.invites[id]; ok {
			c.invites[id] = v
		}
	}
	for _, id := range []string{"q0", "q1"} {
		if v, ok := st.requestRecords[id]; ok {
			c.requestRecords[id] = v
		}
	}
	c.contentValidator = newContentValidator(c.keyStore, c, recordverifier.NewValidateFull())
	return c
}

// vC04Rules: the privilege rules over one step pre -> post made by author ai with contents of the given kinds.
func vC04Rules(st *AclState, pre, post vC04Snap, ai int, kinds []int, recId string) {
	authorPerm := pre.perm[ai]
	if !pre.present[ai] {
		authorPerm = vNone
	}
	isOwner := authorPerm == vOwner
	canManage := rt.AnyOf(authorPerm == vOwner, authorPerm == vAdmin)

	// 1. exactly one owner afterwards
	owners := 0
	for i := 0; i < 5; i++ {
		owners += vC04B(rt.AllOf(post.present[i], post.perm[i] == vOwner))
	}
	rt.Assert(owners == 1, "exactly-one-owner-after")

	for i := 0; i < 5; i++ {
		prePerm := pre.perm[i]
		if !pre.present[i] {
			prePerm = vNone
		}
		postPerm := post.perm[i]
		if !post.present[i] {
			postPerm = vNone
		}
		self := i == ai
		// 2. only the owner grants or revokes Admin, by any route; the one exception is an
		// outsider's own join through a live open invite that already carries Admin
		adminChanged := (prePerm == vAdmin) != (postPerm == vAdmin)
		selfJoin := self && vC04IsJoinKind(kinds)
		if !selfJoin {
			rt.Assert(rt.AnyOf(!adminChanged, isOwner), "admin-role-changes-only-by-owner")
		}
		// 3. changes to another account need account-management rights
		if !self {
			changed := rt.AnyOf(prePerm != postPerm, pre.status[i] != post.status[i], pre.present[i] != post.present[i])
			rt.Assert(rt.AnyOf(!changed, canManage), "others-changed-only-by-managers")
		}
		// 4. guests are never re-permissioned (only removed); the owner changes only by its own transfer
		rt.Assert(rt.AnyOf(prePerm != vGuest, postPerm == vGuest, postPerm == vNone), "guest-never-repermissioned")
		if !self {
			rt.Assert(rt.AnyOf(prePerm != vOwner, postPerm == vOwner), "owner-not-demoted-by-others")
		}
		// 6. an ordinary member changes nothing but its own status / pending request
		if self {
			ordinary := rt.AllOf(authorPerm != vNone, authorPerm != vOwner, authorPerm != vAdmin)
			rt.Assert(rt.AnyOf(!ordinary, prePerm == postPerm), "ordinary-member-keeps-own-permission")
			// 5. an author without permissions ends with at most an open invite's permissions
			if !selfJoin {
				rt.Assert(rt.AnyOf(authorPerm != vNone, postPerm == vNone), "outsider-gains-access-only-through-invite-join")
			}
		}
	}
	// a3 is a bystander no record mentions
	rt.Assert(rt.AllOf(pre.perm[3] == post.perm[3], pre.status[3] == post.status[3]), "bystander-unchanged")
	// invites: set changes need management rights; Admin invites only from the owner
	for k := 0; k < 2; k++ {
		changed := rt.AnyOf(pre.invHas[k] != post.invHas[k], rt.AllOf(pre.invHas[k], pre.invPerm[k] != post.invPerm[k]))
		rt.Assert(rt.AnyOf(!changed, canManage), "invites-managed-only-by-managers")
		becameAdmin := rt.AllOf(post.invHas[k], post.invPerm[k] == vAdmin, post.invType[k] == int32(aclrecordproto.AclInviteType_AnyoneCanJoin),
			rt.AnyOf(!pre.invHas[k], pre.invPerm[k] != vAdmin))
		rt.Assert(rt.AnyOf(!becameAdmin, isOwner), "admin-invite-only-by-owner")
	}
	if inv, ok := st.invites[recId]; ok {
		rt.Assert(canManage, "invites-managed-only-by-managers")
		if inv.Type == aclrecordproto.AclInviteType_AnyoneCanJoin {
			rt.Assert(rt.AnyOf(int32(inv.Permissions) != vAdmin, isOwner), "admin-invite-only-by-owner")
			rt.Assert(rt.AllOf(int32(inv.Permissions) != vNone, int32(inv.Permissions) != vOwner, int32(inv.Permissions) != vGuest), "open-invite-permissions-sane")
		}
	}
	// space options only by the owner
	rt.Assert(rt.AnyOf(pre.nOpts == post.nOpts, isOwner), "options-only-by-owner")
	// I is re-established: open invites keep sane permissions, one pending request per identity
	for k, id := range []string{"i0", "i1"} {
		if inv, ok := st.invites[id]; ok && inv.Type == aclrecordproto.AclInviteType_AnyoneCanJoin {
			_ = k
			rt.Assert(rt.AllOf(int32(inv.Permissions) != vNone, int32(inv.Permissions) != vOwner, int32(inv.Permissions) != vGuest), "open-invite-permissions-sane")
		}
	}
	for _, id := range vC04Ids {
		if rid, ok := st.pendingRequests[id]; ok {
			rr, has := st.requestRecords[rid]
			rt.Assert(has && rr.RequestIdentity.Equals(&vPub{id: id}), "pending-request-has-record")
		}
	}
}
