//go:build verif

package headsync

import (
	"context"

	"github.com/cespare/xxhash"

	"github.com/anyproto/any-sync/app"
	"github.com/anyproto/any-sync/app/ldiff"
	"github.com/anyproto/any-sync/app/logger"
	"github.com/anyproto/any-sync/commonspace/deletionstate"
	"github.com/anyproto/any-sync/commonspace/headsync/headstorage"
	"github.com/anyproto/any-sync/commonspace/headsync/statestorage"
	"github.com/anyproto/any-sync/commonspace/object/acl/list"
	"github.com/anyproto/any-sync/commonspace/object/acl/syncacl"
	"github.com/anyproto/any-sync/commonspace/spacestorage"
	"github.com/anyproto/any-sync/internal/verifstore"
	rt "github.com/anyproto/any-sync/internal/verifrt"
)

// The advertised head index (real DiffManager over the real ldiff) fed by the real head storage's observer calls,
// with the real deletion state; the any-store is the model.

type vC15iState struct{ statestorage.StateStorage }

func (vC15iState) SetHash(ctx context.Context, hash string) error { return nil }

type vC15iSpace struct {
	spacestorage.SpaceStorage
	hs headstorage.HeadStorage
}

func (s *vC15iSpace) Init(a *app.App) error                    { return nil }
func (s *vC15iSpace) Name() string                             { return spacestorage.CName }
func (s *vC15iSpace) HeadStorage() headstorage.HeadStorage     { return s.hs }
func (s *vC15iSpace) StateStorage() statestorage.StateStorage  { return vC15iState{} }

type vC15iAcl struct{ syncacl.SyncAcl }

func (vC15iAcl) Id() string            { return "acl" }
func (vC15iAcl) Head() *list.AclRecord { return &list.AclRecord{Id: "aclhead"} }

type vC15iObserver struct{ dm *DiffManager }

func (o *vC15iObserver) OnUpdate(e headstorage.HeadsEntry) { o.dm.UpdateHeads(e) }

type vC15iWorld struct {
	w     *verifstore.World
	space *vC15iSpace
	state deletionstate.ObjectDeletionState
	dm    *DiffManager
}

// start (or restart): a fresh head storage, deletion state and index over the durable state
func (x *vC15iWorld) start() {
	ctx := context.Background()
	hs, err := headstorage.New(ctx, &verifstore.DB{W: x.w})
	rt.Assert(err == nil, "headstorage-opens")
	x.space = &vC15iSpace{hs: hs}
	a := new(app.App)
	a.Register(x.space)
	x.state = deletionstate.New()
	rt.Assert(x.state.Init(a) == nil, "state-init")
	rt.Assert(x.state.(app.ComponentRunnable).Run(ctx) == nil, "state-run")
	x.dm = NewDiffManager(ldiff.New(4, 2), x.space, vC15iAcl{}, logger.NewNamed("verif"), ctx, x.state)
	hs.AddObserver(&vC15iObserver{dm: x.dm})
	rt.Assert(x.dm.FillDiff(ctx) == nil, "index-filled")
}

func vC15iHas(l []string, s string) bool {
	for _, e := range l {
		if e == s {
			return true
		}
	}
	return false
}

// VerifC15Index: once an object's deletion is recorded its id leaves the advertised index and never comes back -
// not through late head updates, not through a restart - and live objects with content stay advertised.
func VerifC15Index() {
	k := rt.Param("k", 4)
	xxhash.VerifSum64 = func(b []byte) uint64 {
		h := uint64(14695981039346656037)
		for _, c := range b {
			h ^= uint64(c)
			h *= 1099511628211
		}
		return h
	}
	ctx := context.Background()
	x := &vC15iWorld{w: verifstore.NewWorld()}
	x.start()
	ids := []string{"a", "b"}
	deleted := map[string]bool{}
	content := map[string]bool{} // the object has heads beyond its root
	for step := 0; step < k; step++ {
		id := ids[rt.Choose(2)]
		switch rt.Choose(4) {
		case 0: // the object is created / a head update arrives (also for an id whose deletion is recorded)
			heads := [][]string{{id}, {id + "1"}, {id + "1", id + "2"}}[rt.Choose(3)]
			rt.Assert(x.space.hs.UpdateEntry(ctx, headstorage.HeadsUpdate{Id: id, Heads: heads}) == nil, "head-update-stored")
			if !deleted[id] {
				content[id] = len(heads) != 1 || heads[0] != id
			}
		case 1: // a deletion record
			x.state.Add(map[string]struct{}{id: {}})
			deleted[id] = true
		case 2: // the deletion worker finalises what is queued
			for _, q := range x.state.GetQueued() {
				rt.Assert(x.state.Delete(q) == nil, "finalise")
			}
		case 3: // restart
			x.start()
		}
		advertised := x.dm.AllIds()
		for _, o := range ids {
			if deleted[o] {
				rt.Assert(!vC15iHas(advertised, o), "deleted-object-is-not-advertised")
				rt.Assert(x.state.Exists(o), "deletion-stays-known")
			} else if content[o] {
				rt.Assert(vC15iHas(advertised, o), "live-object-with-content-is-advertised")
			}
		}
	}
	rt.Reach("index")
}
