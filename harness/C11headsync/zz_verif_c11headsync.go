//go:build verif

package headsync

import (
	"context"

	"github.com/cespare/xxhash"

	"github.com/anyproto/any-sync/app/ldiff"
	"github.com/anyproto/any-sync/commonspace/spacesyncproto"
	rt "github.com/anyproto/any-sync/internal/verifrt"
)

// VerifC11HeadSync: a head-sync range request from a peer - ranges with From above To, overlapping or empty
// ranges, any Limit, elements wanted or not - is answered or refused with an error: no panic, and no allocation
// sized by a number in the request (the engine treats a make() whose size the input can push beyond its
// allocation bound as an outcome of its own).
func VerifC11HeadSync() {
	xxhash.VerifSum64 = func(b []byte) uint64 { return rt.UF64("xxhash", b) }
	ctx := context.Background()
	d := ldiff.New(4, 2)
	ids := rt.Atoms(2, 2)
	n := rt.Param("elements", 2)
	for i := 0; i < n; i++ {
		d.Set(ldiff.Element{Id: ids[i], Head: "h"})
	}
	bounds := []uint64{0, 1 << 62, 1 << 63, ^uint64(0)}
	nr := rt.Param("ranges", 1)
	req := &spacesyncproto.HeadSyncRequest{SpaceId: "space"}
	for i := 0; i < nr; i++ {
		req.Ranges = append(req.Ranges, &spacesyncproto.HeadSyncRange{
			From:     bounds[rt.Choose(len(bounds))],
			To:       bounds[rt.Choose(len(bounds))],
			Limit:    rt.U32(),
			Elements: rt.Bool(),
		})
	}
	var resp *spacesyncproto.HeadSyncResponse
	var err error
	rt.Bounded(1<<20, func() { resp, err = HandleRangeRequest(ctx, d, req) })
	if err != nil {
		rt.Reach("refused")
		return
	}
	rt.Assert(resp != nil && len(resp.Results) == nr, "one-result-per-requested-range")
	for _, r := range resp.Results {
		rt.Assert(len(r.Elements) <= n, "no-more-elements-than-stored")
	}
	rt.Reach("answered")
}
