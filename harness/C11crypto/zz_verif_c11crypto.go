//go:build verif

package crypto

import (
	"crypto/cipher"
	"errors"
	"hash"

	"filippo.io/edwards25519"

	rt "github.com/anyproto/any-sync/internal/verifrt"
)

// Engine-only leaf stubs (rt.Replace is a no-op natively, where the real
// primitives run): arbitrary results of the documented shape.
type vC11Hash struct{ size int }

func (h vC11Hash) Write(p []byte) (int, error) { return len(p), nil }
func (h vC11Hash) Sum(b []byte) []byte        { return append(b, rt.StubBytes(h.size)...) }
func (h vC11Hash) Reset()                     {}
func (h vC11Hash) Size() int                  { return h.size }
func (h vC11Hash) BlockSize() int             { return 128 }

type vC11AEAD struct{}

func (vC11AEAD) NonceSize() int { return NonceBytes }
func (vC11AEAD) Overhead() int  { return 16 }
func (vC11AEAD) Seal(dst, nonce, plaintext, additionalData []byte) []byte {
	return append(append(dst, plaintext...), make([]byte, 16)...)
}
func (vC11AEAD) Open(dst, nonce, ciphertext, additionalData []byte) ([]byte, error) {
	if len(nonce) != NonceBytes {
		panic("crypto/cipher: incorrect nonce length given to GCM")
	}
	if len(ciphertext) < 16 || !rt.StubBool() {
		return nil, ErrX25519DecryptionFailed
	}
	return append(dst, rt.StubBytes(len(ciphertext)-16)...), nil
}

type vC11Block struct{}

func (vC11Block) BlockSize() int          { return 16 }
func (vC11Block) Encrypt(dst, src []byte) {}
func (vC11Block) Decrypt(dst, src []byte) {}

func vC11SetBytes(v *edwards25519.Point, x []byte) (*edwards25519.Point, error) {
	if len(x) != 32 || !rt.StubBool() {
		return nil, errors.New("edwards25519: invalid point encoding")
	}
	return v, nil
}

func vC11InstallStubs() {
	rt.Replace("golang.org/x/crypto/nacl/box.Open", func(out, b []byte, nonce *[24]byte, pk, sk *[32]byte) ([]byte, bool) {
		if len(b) < 16 || !rt.StubBool() {
			return nil, false
		}
		return append(out, rt.StubBytes(len(b)-16)...), true
	})
	rt.Replace("golang.org/x/crypto/blake2b.New", func(size int, key []byte) (hash.Hash, error) {
		return vC11Hash{size}, nil
	})
	rt.Replace("crypto/aes.NewCipher", func(key []byte) (cipher.Block, error) {
		if len(key) != 16 && len(key) != 24 && len(key) != 32 {
			return nil, ErrIncorrectKeyType
		}
		return vC11Block{}, nil
	})
	rt.Replace("crypto/cipher.NewGCM", func(b cipher.Block) (cipher.AEAD, error) { return vC11AEAD{}, nil })
	rt.Replace("(*filippo.io/edwards25519.Point).SetBytes", vC11SetBytes)
}

// VerifC11Decrypt: hostile ciphertexts of every length end in an error, never a panic.
func VerifC11Decrypt() {
	max := rt.Param("len", 40)
	vC11InstallStubs()
	n := rt.Choose(max + 1)
	msg := rt.Bytes(n)
	var priv, pub [32]byte
	copy(priv[:], rt.Bytes(32))
	copy(pub[:], rt.Bytes(32))
	out, err := DecryptX25519(&priv, &pub, msg)
	rt.Assert(err != nil || len(out) <= n, "x25519-output-bounded-by-input")
	if err == nil {
		rt.Reach("x25519-accepted")
	}

	key := &AESKey{raw: rt.Bytes(KeyBytes)}
	plain, err := key.DecryptReuse(nil, msg)
	rt.Assert(err != nil || len(plain) <= n, "aes-output-bounded-by-input")
	if err == nil {
		rt.Reach("aes-accepted")
	}
	_, err = UnmarshallAESKey(msg)
	rt.Assert((err == nil) == (n == KeyBytes), "aes-key-length-checked")
	rt.Reach("done")
}

// VerifC11KeyProto: protobuf-wrapped keys from a peer: any byte string is
// accepted or rejected with an error.
func VerifC11KeyProto() {
	max := rt.Param("len", 6)
	vC11InstallStubs()
	n := rt.Choose(max + 1)
	buf := rt.Bytes(n)
	k1, err1 := UnmarshalEd25519PublicKeyProto(buf)
	rt.Assert((err1 == nil) == (k1 != nil), "pubkey-proto-result-or-error")
	k2, err2 := UnmarshalEd25519PrivateKeyProto(buf)
	rt.Assert((err2 == nil) == (k2 != nil), "privkey-proto-result-or-error")
	k3, err3 := UnmarshallAESKeyProto(buf)
	rt.Assert((err3 == nil) == (k3 != nil), "aeskey-proto-result-or-error")
	rt.Reach("done")
}
