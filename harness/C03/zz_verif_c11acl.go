//go:build verif

package list

import (
	"github.com/anyproto/any-sync/commonspace/object/acl/aclrecordproto"
	"github.com/anyproto/any-sync/consensus/consensusproto"
	rt "github.com/anyproto/any-sync/internal/verifrt"
)

// Structurally valid but malicious ACL records (C11): every content kind with its fields removed, and the
// kinds that embed another message with that message missing.  Everything here goes through the wire
// encoding (MarshalVT -> the list's own decoders), so only shapes a peer can really send are produced.
func vC11AclContent(kind, variant int) *aclrecordproto.AclContentValue {
	cv := &aclrecordproto.AclContentValue{}
	id := func() []byte {
		if variant == 1 {
			return []byte("a1")
		}
		return nil
	}
	switch kind {
	case 0:
		cv.Value = &aclrecordproto.AclContentValue_Invite{Invite: &aclrecordproto.AclAccountInvite{InviteKey: id()}}
	case 1:
		cv.Value = &aclrecordproto.AclContentValue_InviteRevoke{InviteRevoke: &aclrecordproto.AclAccountInviteRevoke{}}
	case 2:
		cv.Value = &aclrecordproto.AclContentValue_RequestJoin{RequestJoin: &aclrecordproto.AclAccountRequestJoin{InviteIdentity: id()}}
	case 3:
		cv.Value = &aclrecordproto.AclContentValue_RequestAccept{RequestAccept: &aclrecordproto.AclAccountRequestAccept{Identity: id()}}
	case 4:
		cv.Value = &aclrecordproto.AclContentValue_PermissionChange{PermissionChange: &aclrecordproto.AclAccountPermissionChange{Identity: id()}}
	case 5:
		// identities given, the read key change that must come with a removal is missing
		cv.Value = &aclrecordproto.AclContentValue_AccountRemove{AccountRemove: &aclrecordproto.AclAccountRemove{Identities: [][]byte{id()}}}
	case 6:
		cv.Value = &aclrecordproto.AclContentValue_ReadKeyChange{ReadKeyChange: &aclrecordproto.AclReadKeyChange{AccountKeys: []*aclrecordproto.AclEncryptedReadKey{{Identity: id()}}}}
	case 7:
		cv.Value = &aclrecordproto.AclContentValue_RequestDecline{RequestDecline: &aclrecordproto.AclAccountRequestDecline{}}
	case 8:
		cv.Value = &aclrecordproto.AclContentValue_AccountRequestRemove{AccountRequestRemove: &aclrecordproto.AclAccountRequestRemove{}}
	case 9:
		cv.Value = &aclrecordproto.AclContentValue_PermissionChanges{PermissionChanges: &aclrecordproto.AclAccountPermissionChanges{Changes: []*aclrecordproto.AclAccountPermissionChange{{Identity: id()}}}}
	case 10:
		cv.Value = &aclrecordproto.AclContentValue_AccountsAdd{AccountsAdd: &aclrecordproto.AclAccountsAdd{Additions: []*aclrecordproto.AclAccountAdd{{Identity: id()}}}}
	case 11:
		cv.Value = &aclrecordproto.AclContentValue_RequestCancel{RequestCancel: &aclrecordproto.AclAccountRequestCancel{}}
	case 12:
		cv.Value = &aclrecordproto.AclContentValue_InviteJoin{InviteJoin: &aclrecordproto.AclAccountInviteJoin{Identity: id()}}
	case 13:
		cv.Value = &aclrecordproto.AclContentValue_InviteChange{InviteChange: &aclrecordproto.AclAccountInviteChange{}}
	case 14:
		cv.Value = &aclrecordproto.AclContentValue_OwnershipChange{OwnershipChange: &aclrecordproto.AclOwnershipChange{NewOwnerIdentity: id()}}
	case 15:
		// options change without options
		cv.Value = &aclrecordproto.AclContentValue_SpaceOptionsChange{SpaceOptionsChange: &aclrecordproto.AclSpaceOptionsChange{}}
	case 16:
		// a content value with no variant at all
	case 17:
		cv.Value = &aclrecordproto.AclContentValue_AccountRemove{AccountRemove: &aclrecordproto.AclAccountRemove{}}
	case 18:
		cv.Value = &aclrecordproto.AclContentValue_ReadKeyChange{ReadKeyChange: &aclrecordproto.AclReadKeyChange{MetadataPubKey: id(), InviteKeys: []*aclrecordproto.AclEncryptedReadKey{{Identity: id()}}}}
	}
	return cv
}

// VerifC11Acl: a hostile record is accepted or refused with an error by AddRawRecord and by
// ValidateRawRecord, in both verifier modes, for a party and for a bystander; it never panics.
func VerifC11Acl() {
	vC03Install()
	validate := rt.Choose(2) == 1
	v := &vC03Verifier{validate: validate, acceptorOk: true}
	observer := []string{"obs", "own", "a1"}[rt.Choose(3)]
	root := vC03Root("own")
	l, _, err := vC03List([]*consensusproto.RawRecordWithId{root}, v, observer)
	rt.Assert(err == nil, "build-root")
	// a1 is a member, so that removals and changes have a target
	add := vC03Record(root.Id, "own", &aclrecordproto.AclContentValue{Value: &aclrecordproto.AclContentValue_AccountsAdd{AccountsAdd: &aclrecordproto.AclAccountsAdd{
		Additions: []*aclrecordproto.AclAccountAdd{{Identity: []byte("a1"), Permissions: aclrecordproto.AclUserPermissions_Writer, EncryptedReadKey: []byte("erk")}}}}})
	if l.AddRawRecord(add) != nil {
		rt.Reach("setup-refused") // observer a1 cannot open the junk key: that list simply stays at the root
	}
	author := []string{"own", "a1", "zz"}[rt.Choose(3)]
	kind := rt.Choose(19)
	variant := rt.Choose(2)
	rec := vC03Record(l.Head().Id, author, vC11AclContent(kind, variant))
	// full validation of a proposed record (what the consensus node and the client preflight run)
	inner := &consensusproto.RawRecord{}
	rt.Assert(inner.UnmarshalVT(rec.Payload) == nil, "well-formed-outer-record")
	if l.ValidateRawRecord(inner, nil) == nil {
		rt.Reach("validated")
	}
	if l.AddRawRecord(rec) == nil {
		rt.Reach("accepted")
	} else {
		rt.Reach("refused")
	}
	rt.Reach("survived")
}
