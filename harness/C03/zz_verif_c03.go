//go:build verif

package list

import (
	"context"
	"errors"

	"github.com/anyproto/any-sync/commonspace/object/accountdata"
	"github.com/anyproto/any-sync/commonspace/object/acl/aclrecordproto"
	"github.com/anyproto/any-sync/consensus/consensusproto"
	rt "github.com/anyproto/any-sync/internal/verifrt"
	"github.com/anyproto/any-sync/util/cidutil"
)

// ---- content ids: an injective, deterministic "hash": distinct byte strings get distinct ids.
// Installed over cidutil (engine: rt.Replace; native replays: generated forwarding overlay).

var vC03Cids map[string]string

func vC03Cid(data []byte) string {
	if id, ok := vC03Cids[string(data)]; ok {
		return id
	}
	id := "cid" + string(rune('a'+len(vC03Cids)))
	vC03Cids[string(data)] = id
	return id
}

type vC03Verifier struct {
	validate   bool
	acceptorOk bool
}

func (v *vC03Verifier) VerifyAcceptor(rec *consensusproto.RawRecord) error {
	if !v.acceptorOk || string(rec.AcceptorSignature) != "ACC"+string(rec.Payload[:1]) {
		return errors.New("verif: acceptor signature does not verify")
	}
	return nil
}
func (v *vC03Verifier) ShouldValidate() bool { return v.validate }

// fault-injecting storage wrapper around the repository's in-memory acl storage
type vC03Storage struct {
	Storage
	failAdd bool
	adds    int
}

func (s *vC03Storage) AddAll(ctx context.Context, records []StorageRecord) error {
	s.adds++
	if s.failAdd {
		return errors.New("verif: injected storage fault")
	}
	return s.Storage.AddAll(ctx, records)
}

func vC03Install() {
	vC03Cids = map[string]string{}
	rt.Replace("github.com/anyproto/any-sync/util/cidutil.VerifyCid", func(data []byte, id string) bool { return vC03Cid(data) == id })
	rt.Replace("github.com/anyproto/any-sync/util/cidutil.NewCidFromBytes", func(data []byte) (string, error) { return vC03Cid(data), nil })
	// the AclState makes its own key storage: identities and keys in records decode to the fakes
	vCryptoInstall()
}

// signed, acceptor-signed, content-addressed raw record
func vC03Raw(payload []byte, author string) *consensusproto.RawRecordWithId {
	sig, _ := (&vPriv{id: author}).Sign(payload)
	raw := &consensusproto.RawRecord{Payload: payload, Signature: sig, AcceptorIdentity: []byte("net"), AcceptorSignature: []byte("ACC" + string(payload[:1]))}
	b, _ := raw.MarshalVT()
	id, _ := cidutil.NewCidFromBytes(b)
	return &consensusproto.RawRecordWithId{Payload: b, Id: id}
}

func vC03Root(owner string) *consensusproto.RawRecordWithId {
	root := &aclrecordproto.AclRoot{Identity: []byte(owner), SpaceId: "space", Timestamp: 1}
	payload, _ := root.MarshalVT()
	return vC03Raw(payload, owner)
}

// root of a one-to-one space: the owner is the key both writers derive, the writers are fixed for good
func vC03RootOneToOne() *consensusproto.RawRecordWithId {
	root := &aclrecordproto.AclRoot{Identity: []byte("own"), SpaceId: "space", Timestamp: 1,
		OneToOneInfo: &aclrecordproto.AclOneToOneInfo{Owner: []byte("own"), Writers: [][]byte{[]byte("a1"), []byte("a2")}}}
	payload, _ := root.MarshalVT()
	return vC03Raw(payload, "own")
}

func vC03Record(prev, author string, contents ...*aclrecordproto.AclContentValue) *consensusproto.RawRecordWithId {
	data, _ := (&aclrecordproto.AclData{AclContent: contents}).MarshalVT()
	payload, _ := (&consensusproto.Record{PrevId: prev, Identity: []byte(author), Data: data, Timestamp: 2}).MarshalVT()
	return vC03Raw(payload, author)
}

func vC03List(records []*consensusproto.RawRecordWithId, v *vC03Verifier, observer string) (*aclList, *vC03Storage, error) {
	inner, err := NewInMemoryStorage(records[0].Id, records)
	if err != nil {
		return nil, nil, err
	}
	st := &vC03Storage{Storage: inner}
	keys := &accountdata.AccountKeys{SignKey: &vPriv{id: observer}, PeerId: observer}
	deps := internalDeps{
		storage:          st,
		keyStorage:       vKS{},
		stateBuilder:     newAclStateBuilderWithIdentity(keys),
		recordBuilder:    NewAclRecordBuilder(records[0].Id, vKS{}, keys, v),
		acceptorVerifier: v,
	}
	l, err := build(deps)
	if err != nil {
		return nil, st, err
	}
	return l.(*aclList), st, nil
}

// observable state, as a canonical string
func vC03Observe(l *aclList) string {
	st := l.aclState
	out := "head=" + l.Head().Id + ";last=" + st.lastRecordId + ";n=" + string(rune('0'+len(l.records)))
	for _, id := range []string{"own", "a1", "a2", "a3"} {
		as, ok := st.accountStates[id]
		out += ";" + id + ":"
		if ok {
			out += string(rune('0'+int(as.Permissions))) + string(rune('0'+int(as.Status))) + string(rune('0'+len(as.PermissionChanges)))
		} else {
			out += "-"
		}
		if _, p := st.pendingRequests[id]; p {
			out += "p"
		}
	}
	for _, id := range l.recordIds() {
		if inv, ok := st.invites[id]; ok {
			out += ";inv@" + id + ":" + string(rune('0'+int(inv.Permissions))) + string(rune('0'+int(inv.Type)))
		}
		if rq, ok := st.requestRecords[id]; ok {
			out += ";req@" + id + ":" + string(rune('0'+int(rq.Type)))
		}
	}
	out += ";rk="
	for _, k := range st.readKeyChanges {
		out += k + ","
	}
	// key entries: one per record id that introduced a key generation, nothing else
	out += ";keys=" + string(rune('0'+len(st.keys))) + ":"
	for _, id := range append([]string{""}, l.recordIds()...) {
		if k, ok := st.keys[id]; ok {
			out += id
			if k.ReadKey != nil {
				out += "+r"
			}
			if k.MetadataPubKey != nil {
				out += "+m"
			}
			out += ","
		}
	}
	out += ";opts=" + string(rune('0'+len(st.optionChanges)))
	return out
}

func (a *aclList) recordIds() []string {
	var ids []string
	for _, r := range a.records {
		ids = append(ids, r.Id)
	}
	return ids
}

// a read key change addressed to exactly the accounts that hold a permission in st (what the validator demands)
func vC03ReadKeyChange(st *AclState) *aclrecordproto.AclReadKeyChange {
	ch := &aclrecordproto.AclReadKeyChange{MetadataPubKey: []byte("mk"), EncryptedMetadataPrivKey: []byte("emk"), EncryptedOldReadKey: []byte("eok")}
	for _, id := range []string{"own", "a1", "a2", "a3"} {
		if as, ok := st.accountStates[id]; ok && !as.Permissions.NoPermissions() {
			ch.AccountKeys = append(ch.AccountKeys, &aclrecordproto.AclEncryptedReadKey{Identity: []byte(id), EncryptedReadKey: []byte("E(" + id + ")k")})
		}
	}
	return ch
}

func vC03Content(kind int, st *AclState) *aclrecordproto.AclContentValue {
	perm := func() aclrecordproto.AclUserPermissions {
		return []aclrecordproto.AclUserPermissions{aclrecordproto.AclUserPermissions_Reader, aclrecordproto.AclUserPermissions_Writer, aclrecordproto.AclUserPermissions_Admin}[rt.Choose(3)]
	}
	target := func() []byte { return []byte([]string{"a1", "a2"}[rt.Choose(2)]) }
	cv := &aclrecordproto.AclContentValue{}
	switch kind {
	case 0:
		cv.Value = &aclrecordproto.AclContentValue_AccountsAdd{AccountsAdd: &aclrecordproto.AclAccountsAdd{Additions: []*aclrecordproto.AclAccountAdd{{Identity: target(), Permissions: perm(), EncryptedReadKey: []byte("erk")}}}}
	case 1:
		cv.Value = &aclrecordproto.AclContentValue_PermissionChange{PermissionChange: &aclrecordproto.AclAccountPermissionChange{Identity: target(), Permissions: perm()}}
	case 2:
		cv.Value = &aclrecordproto.AclContentValue_Invite{Invite: &aclrecordproto.AclAccountInvite{InviteKey: []byte("ik"), InviteType: aclrecordproto.AclInviteType_RequestToJoin, Permissions: perm()}}
	case 3:
		cv.Value = &aclrecordproto.AclContentValue_AccountRequestRemove{AccountRequestRemove: &aclrecordproto.AclAccountRequestRemove{}}
	case 4:
		cv.Value = &aclrecordproto.AclContentValue_SpaceOptionsChange{SpaceOptionsChange: &aclrecordproto.AclSpaceOptionsChange{Options: &aclrecordproto.AclSpaceOptions{DeleteRestricted: true}}}
	case 5:
		cv.Value = &aclrecordproto.AclContentValue_PermissionChanges{PermissionChanges: &aclrecordproto.AclAccountPermissionChanges{Changes: []*aclrecordproto.AclAccountPermissionChange{
			{Identity: []byte("a1"), Permissions: perm()}, {Identity: []byte("a2"), Permissions: perm()}}}}
	case 6:
		cv.Value = &aclrecordproto.AclContentValue_ReadKeyChange{ReadKeyChange: vC03ReadKeyChange(st)}
	}
	return cv
}

// VerifC03Chain: only records that extend the head, hash to their id and carry verifying
// signatures are accepted; a rejected record changes neither the state nor storage; every
// route to the same record sequence yields the same state.
func VerifC03Chain() {
	n := rt.Param("n", 2)
	validate := rt.Choose(2) == 1
	vC03Install()
	v := &vC03Verifier{validate: validate, acceptorOk: true}
	root := vC03Root("own")
	if rt.Param("oto", 0) == 1 {
		root = vC03RootOneToOne()
	}
	live, store, err := vC03List([]*consensusproto.RawRecordWithId{root}, v, "obs")
	rt.Assert(err == nil, "build-root")
	accepted := []*consensusproto.RawRecordWithId{root}
	for step := 0; step < n; step++ {
		author := []string{"own", "a1"}[rt.Choose(2)]
		nContents := 1 + rt.Choose(2)
		var cs []*aclrecordproto.AclContentValue
		for i := 0; i < nContents; i++ {
			cs = append(cs, vC03Content(rt.Choose(7), live.aclState))
		}
		prev := live.Head().Id
		mutation := rt.Choose(7)
		if mutation == 1 {
			prev = root.Id // does not extend the current head (unless the head is the root)
		}
		rec := vC03Record(prev, author, cs...)
		switch mutation {
		case 2: // id is not the hash of the bytes
			rec = &consensusproto.RawRecordWithId{Payload: rec.Payload, Id: "cidzz"}
		case 3: // author signature does not verify: re-sign as somebody else
			inner := &consensusproto.RawRecord{}
			_ = inner.UnmarshalVT(rec.Payload)
			inner.Signature = []byte("S(zz)" + string(inner.Payload))
			b, _ := inner.MarshalVT()
			id, _ := cidutil.NewCidFromBytes(b)
			rec = &consensusproto.RawRecordWithId{Payload: b, Id: id}
		case 4: // acceptor signature missing
			inner := &consensusproto.RawRecord{}
			_ = inner.UnmarshalVT(rec.Payload)
			inner.AcceptorSignature = []byte("bad")
			b, _ := inner.MarshalVT()
			id, _ := cidutil.NewCidFromBytes(b)
			rec = &consensusproto.RawRecordWithId{Payload: b, Id: id}
		case 5: // one payload byte altered after signing and addressing
			b := append([]byte{}, rec.Payload...)
			b[len(b)-1] ^= 0x01
			rec = &consensusproto.RawRecordWithId{Payload: b, Id: rec.Id}
		case 6: // same content, other bytes: the outer record re-encoded with its fields in another order, id unchanged
			inner := &consensusproto.RawRecord{}
			_ = inner.UnmarshalVT(rec.Payload)
			tail, _ := (&consensusproto.RawRecord{Payload: inner.Payload}).MarshalVT()
			head, _ := (&consensusproto.RawRecord{Signature: inner.Signature, AcceptorIdentity: inner.AcceptorIdentity, AcceptorSignature: inner.AcceptorSignature}).MarshalVT()
			rec = &consensusproto.RawRecordWithId{Payload: append(head, tail...), Id: rec.Id}
		}
		before := vC03Observe(live)
		stored := len(store.Storage.(*inMemoryStorage).records)
		err := live.AddRawRecord(rec)
		if err != nil {
			rt.Assert(vC03Observe(live) == before, "rejected-record-leaves-state")
			rt.Assert(len(store.Storage.(*inMemoryStorage).records) == stored, "rejected-record-leaves-storage")
			rt.Reach("rejected")
		} else {
			rt.Assert(mutation == 0 || (mutation == 1 && prev == before[5:5+len(prev)]), "only-wellformed-records-accepted")
			rt.Assert(live.Head().Id == rec.Id && live.aclState.lastRecordId == rec.Id, "head-advances-to-accepted-record")
			head, _ := store.Head(context.Background())
			rt.Assert(head == rec.Id, "stored-head-is-last-accepted-record")
			accepted = append(accepted, rec)
			rt.Reach("accepted")
		}
	}
	// determinism: the same accepted sequence by other routes
	final := vC03Observe(live)
	batch, _, err := vC03List([]*consensusproto.RawRecordWithId{root}, v, "obs")
	rt.Assert(err == nil, "build-batch")
	rt.Assert(batch.AddRawRecords(accepted[1:]) == nil, "batch-accepts-the-accepted-sequence")
	rt.Assert(vC03Observe(batch) == final, "batch-route-equals-one-at-a-time")
	restarted, _, err := vC03List(accepted, v, "obs")
	rt.Assert(err == nil, "rebuild-from-storage")
	if err == nil {
		rt.Assert(vC03Observe(restarted) == final, "rebuilt-from-storage-equals-live")
	}
	// another replica catching up from the records this one serves
	served, err := live.RecordsAfter(context.Background(), "")
	rt.Assert(err == nil && len(served) == len(accepted), "serves-every-record")
	follower, _, err := vC03List([]*consensusproto.RawRecordWithId{root}, v, "other")
	rt.Assert(err == nil, "build-follower")
	if err == nil && len(served) > 0 {
		rt.Assert(follower.AddRawRecords(served[1:]) == nil, "follower-accepts-served-records")
		rt.Assert(vC03Observe(follower) == final, "follower-equals-live")
	}
	// a replica whose head is still the root asks for what comes after its head
	fromRoot, err := live.RecordsAfter(context.Background(), root.Id)
	rt.Assert(err == nil, "serves-records-after-the-root")
	late, _, err := vC03List([]*consensusproto.RawRecordWithId{root}, v, "other")
	rt.Assert(err == nil, "build-late-follower")
	if err == nil {
		rt.Assert(late.AddRawRecords(fromRoot) == nil, "late-follower-accepts-served-records")
		rt.Assert(vC03Observe(late) == final, "follower-at-the-root-catches-up")
	}
	rt.Reach("chain")
}

// VerifC03Fault (C10, ACL half): a storage fault while adding a record leaves the live list
// agreeing with storage, and the same record is accepted when retried.
func VerifC03Fault() {
	vC03Install()
	v := &vC03Verifier{validate: rt.Choose(2) == 1, acceptorOk: true}
	root := vC03Root("own")
	live, store, err := vC03List([]*consensusproto.RawRecordWithId{root}, v, "obs")
	rt.Assert(err == nil, "build-root")
	rec := vC03Record(root.Id, "own", vC03Content(rt.Choose(7), live.aclState))
	// only records that a fault-free list accepts are interesting here
	twin, _, err := vC03List([]*consensusproto.RawRecordWithId{root}, v, "obs")
	rt.Assert(err == nil, "build-twin")
	if twin.AddRawRecord(rec) != nil {
		return
	}
	store.failAdd = true
	before := vC03Observe(live)
	err = live.AddRawRecord(rec)
	rt.Assert(err != nil, "fault-is-reported")
	head, _ := store.Head(context.Background())
	rt.Assert(head == root.Id, "nothing-stored")
	rt.Assert(live.Head().Id == head, "live-head-is-the-stored-head")
	rt.Assert(vC03Observe(live) == before, "failed-write-leaves-live-state")
	store.failAdd = false
	err = live.AddRawRecord(rec)
	rt.Assert(err == nil, "retry-after-fault-succeeds")
	head, _ = store.Head(context.Background())
	rt.Assert(head == rec.Id && live.Head().Id == rec.Id, "retry-persists-the-record")
	rt.Reach("fault")
}
