//go:build verif

package list

import (
	"github.com/anyproto/any-sync/commonspace/object/acl/aclrecordproto"
	"github.com/anyproto/any-sync/consensus/consensusproto"
	rt "github.com/anyproto/any-sync/internal/verifrt"
	"github.com/anyproto/any-sync/util/cidutil"
)

// a read key change whose keys really open: the read key is encrypted to every permission holder, the
// metadata key to the read key.  An identity may be written in a non-canonical encoding of the same key.
func vC03KeyedReadKeyChange(st *AclState, gen int, alias bool) *aclrecordproto.AclReadKeyChange {
	rk := vSymKey(gen)
	rkProto, _ := rk.Marshall()
	mkPriv, _ := (&vPriv{id: "mk"}).Marshall()
	emk, _ := rk.Encrypt(mkPriv)
	ch := &aclrecordproto.AclReadKeyChange{MetadataPubKey: []byte("mk"), EncryptedMetadataPrivKey: emk, EncryptedOldReadKey: []byte("eok")}
	for _, id := range []string{"own", "a1", "a2", "a3"} {
		if as, ok := st.accountStates[id]; ok && !as.Permissions.NoPermissions() {
			enc, _ := (&vPub{id: id}).Encrypt(rkProto)
			ident := []byte(id)
			if alias && rt.Choose(2) == 1 {
				ident = append(ident, '~')
			}
			ch.AccountKeys = append(ch.AccountKeys, &aclrecordproto.AclEncryptedReadKey{Identity: ident, EncryptedReadKey: enc})
		}
	}
	return ch
}

// VerifC03Decode: the same record sequence through a validating list (generated decoder) and through a
// non-validating one (memory-saving partial decode that keeps only the observer's own key entries), for an
// observer that is a party: same acceptance, same members, same key generations, the observer's read keys opened in both.
func VerifC03Decode() {
	n := rt.Param("n", 2)
	alias := rt.Param("alias", 1) == 1
	vC03Install()
	observer := []string{"own", "a1"}[rt.Choose(2)]
	full := &vC03Verifier{validate: true, acceptorOk: true}
	part := &vC03Verifier{validate: false, acceptorOk: true}
	root := vC03Root("own")
	a, _, err := vC03List([]*consensusproto.RawRecordWithId{root}, full, observer)
	rt.Assert(err == nil, "build-validating")
	b, _, err := vC03List([]*consensusproto.RawRecordWithId{root}, part, observer)
	rt.Assert(err == nil, "build-partial")
	accepted := []*consensusproto.RawRecordWithId{root}
	for step := 0; step < n; step++ {
		var cv *aclrecordproto.AclContentValue
		switch rt.Choose(3) {
		case 0:
			cv = vC03Content(0, a.aclState)
		case 1:
			cv = &aclrecordproto.AclContentValue{Value: &aclrecordproto.AclContentValue_ReadKeyChange{ReadKeyChange: vC03KeyedReadKeyChange(a.aclState, step+1, alias)}}
		default:
			// removal of a1 together with the key rotation it requires
			rem := &aclrecordproto.AclAccountRemove{Identities: [][]byte{[]byte("a1")}}
			saved, had := a.aclState.accountStates["a1"]
			if had {
				gone := saved
				gone.Permissions = AclPermissions(aclrecordproto.AclUserPermissions_None)
				a.aclState.accountStates["a1"] = gone
			}
			rem.ReadKeyChange = vC03KeyedReadKeyChange(a.aclState, step+1, alias)
			if had {
				a.aclState.accountStates["a1"] = saved
			}
			cv = &aclrecordproto.AclContentValue{Value: &aclrecordproto.AclContentValue_AccountRemove{AccountRemove: rem}}
		}
		rec := vC03Record(a.Head().Id, "own", cv)
		if a.AddRawRecord(rec) != nil {
			rt.Reach("rejected")
			return // what full validation refuses is outside this comparison
		}
		rt.Assert(b.AddRawRecord(rec) == nil, "partial-decode-accepts-what-the-validating-list-accepts")
		accepted = append(accepted, rec)
		rt.Assert(vC03Observe(a) == vC03Observe(b), "partial-decode-state-equals-full-decode-state")
		for id, ka := range a.aclState.keys {
			kb, ok := b.aclState.keys[id]
			rt.Assert(ok && (ka.ReadKey != nil) == (kb.ReadKey != nil) && (ka.MetadataPrivKey != nil) == (kb.MetadataPrivKey != nil), "observer-opens-the-same-keys")
			if ka.ReadKey != nil {
				rt.Reach("read-key-opened")
			}
		}
	}
	restarted, _, err := vC03List(accepted, part, observer)
	rt.Assert(err == nil, "rebuild-partial-from-storage")
	if err == nil {
		rt.Assert(vC03Observe(restarted) == vC03Observe(a), "partial-decode-rebuild-equals-full-decode-state")
	}
	rt.Reach("compared")
}

// VerifC03Batch: AddRawRecords with a batch whose last record is refused half-way (its first content applies,
// its second does not) ends exactly where feeding the same records one at a time ends: nothing of the refused
// record is visible, in the state or in storage.
func VerifC03Batch() {
	vC03Install()
	v := &vC03Verifier{validate: rt.Choose(2) == 1, acceptorOk: true}
	root := vC03Root("own")
	one, oneStore, err := vC03List([]*consensusproto.RawRecordWithId{root}, v, "obs")
	rt.Assert(err == nil, "build-one-at-a-time")
	batch, batchStore, err := vC03List([]*consensusproto.RawRecordWithId{root}, v, "obs")
	rt.Assert(err == nil, "build-batch")
	good := vC03Record(root.Id, "own", vC03Content(rt.Choose(3), one.aclState))
	if one.AddRawRecord(good) != nil {
		return
	}
	second := vC03Record(good.Id, []string{"own", "a1"}[rt.Choose(2)], vC03Content(rt.Choose(7), one.aclState), vC03Content(rt.Choose(7), one.aclState))
	err1 := one.AddRawRecord(second)
	err2 := batch.AddRawRecords([]*consensusproto.RawRecordWithId{good, second})
	rt.Assert((err1 == nil) == (err2 == nil), "batch-reports-what-one-at-a-time-reports")
	rt.Assert(vC03Observe(batch) == vC03Observe(one), "batch-with-a-refused-record-equals-one-at-a-time")
	rt.Assert(len(batchStore.Storage.(*inMemoryStorage).records) == len(oneStore.Storage.(*inMemoryStorage).records), "batch-stores-what-one-at-a-time-stores")
	if err1 != nil {
		rt.Reach("second-refused")
	} else {
		rt.Reach("second-accepted")
	}
}

// VerifC03OwnKey: a record that the network accepts (a bystander with full validation accepts it) is accepted
// by every member's own replica too - also by the member whose own key entry in that record does not open.
func VerifC03OwnKey() {
	vC03Install()
	full := &vC03Verifier{validate: true, acceptorOk: true}
	root := vC03Root("own")
	node, _, err := vC03List([]*consensusproto.RawRecordWithId{root}, full, "obs")
	rt.Assert(err == nil, "build-bystander")
	member, _, err := vC03List([]*consensusproto.RawRecordWithId{root}, full, "a1")
	rt.Assert(err == nil, "build-member")
	target := []string{"a1", "a2"}[rt.Choose(2)]
	rec := vC03Record(root.Id, "own", &aclrecordproto.AclContentValue{Value: &aclrecordproto.AclContentValue_AccountsAdd{AccountsAdd: &aclrecordproto.AclAccountsAdd{
		Additions: []*aclrecordproto.AclAccountAdd{{Identity: []byte(target), Permissions: aclrecordproto.AclUserPermissions_Writer, EncryptedReadKey: []byte("junk")}}}}})
	if node.AddRawRecord(rec) != nil {
		rt.Reach("network-refuses")
		return
	}
	rt.Reach("network-accepts")
	rt.Assert(member.AddRawRecord(rec) == nil, "member-accepts-what-the-network-accepts")
	rt.Assert(member.Head().Id == node.Head().Id, "member-and-network-agree-on-the-head")
}

// VerifC05Coverage (C05): a key rotation - stand-alone or inside a removal - whose account keys are an arbitrary
// list over the identities (repetitions, omissions, strangers) is accepted by a validating list only when it
// names every remaining permission holder exactly once; so nobody who keeps a permission is left without the key.
func VerifC05Coverage() {
	vC03Install()
	full := &vC03Verifier{validate: true, acceptorOk: true}
	root := vC03Root("own")
	l, _, err := vC03List([]*consensusproto.RawRecordWithId{root}, full, "obs")
	rt.Assert(err == nil, "build")
	add := func(id string) {
		rec := vC03Record(l.Head().Id, "own", &aclrecordproto.AclContentValue{Value: &aclrecordproto.AclContentValue_AccountsAdd{AccountsAdd: &aclrecordproto.AclAccountsAdd{
			Additions: []*aclrecordproto.AclAccountAdd{{Identity: []byte(id), Permissions: aclrecordproto.AclUserPermissions_Writer, EncryptedReadKey: []byte("erk")}}}}})
		rt.Assert(l.AddRawRecord(rec) == nil, "setup-add")
	}
	add("a1")
	if rt.Bool() {
		add("a2")
	}
	removeA1 := rt.Bool()
	holders := map[string]int{}
	for _, id := range []string{"own", "a1", "a2"} {
		if as, ok := l.aclState.accountStates[id]; ok && !as.Permissions.NoPermissions() && !(removeA1 && id == "a1") {
			holders[id] = 1
		}
	}
	n := rt.Choose(4) // number of key entries
	ch := &aclrecordproto.AclReadKeyChange{MetadataPubKey: []byte("mk"), EncryptedMetadataPrivKey: []byte("emk"), EncryptedOldReadKey: []byte("eok")}
	named := map[string]int{}
	for i := 0; i < n; i++ {
		id := []string{"own", "a1", "a2", "zz"}[rt.Choose(4)]
		named[id]++
		ch.AccountKeys = append(ch.AccountKeys, &aclrecordproto.AclEncryptedReadKey{Identity: []byte(id), EncryptedReadKey: []byte("E(" + id + ")k")})
	}
	var cv *aclrecordproto.AclContentValue
	if removeA1 {
		cv = &aclrecordproto.AclContentValue{Value: &aclrecordproto.AclContentValue_AccountRemove{AccountRemove: &aclrecordproto.AclAccountRemove{Identities: [][]byte{[]byte("a1")}, ReadKeyChange: ch}}}
	} else {
		cv = &aclrecordproto.AclContentValue{Value: &aclrecordproto.AclContentValue_ReadKeyChange{ReadKeyChange: ch}}
	}
	if l.AddRawRecord(vC03Record(l.Head().Id, "own", cv)) != nil {
		rt.Reach("refused")
		return
	}
	rt.Reach("accepted")
	for _, id := range []string{"own", "a1", "a2", "zz"} {
		rt.Assert(named[id] == holders[id], "accepted-rotation-names-every-remaining-holder-exactly-once")
	}
}

// VerifC03Acceptor: where the network acceptor's signature is required, a record without it (or with a wrong
// one) is refused by every observer - a bystander, a member, and the record's own author - and leaves no trace.
func VerifC03Acceptor() {
	vC03Install()
	v := &vC03Verifier{validate: rt.Choose(2) == 1, acceptorOk: true}
	observer := []string{"obs", "own", "a1"}[rt.Choose(3)]
	root := vC03Root("own")
	l, store, err := vC03List([]*consensusproto.RawRecordWithId{root}, v, observer)
	rt.Assert(err == nil, "build")
	rec := vC03Record(root.Id, "own", vC03Content(rt.Choose(3), l.aclState))
	bad := rt.Choose(3) // 0: genuine, 1: acceptor signature missing, 2: signed by somebody else
	if bad > 0 {
		inner := &consensusproto.RawRecord{}
		rt.Assert(inner.UnmarshalVT(rec.Payload) == nil, "decodes")
		if bad == 1 {
			inner.AcceptorSignature = nil
		} else {
			inner.AcceptorSignature = []byte("ACCx")
		}
		b, _ := inner.MarshalVT()
		id, _ := cidutil.NewCidFromBytes(b)
		rec = &consensusproto.RawRecordWithId{Payload: b, Id: id}
	}
	before := vC03Observe(l)
	stored := len(store.Storage.(*inMemoryStorage).records)
	err = l.AddRawRecord(rec)
	if bad > 0 {
		rt.Assert(err != nil, "record-without-the-acceptors-signature-is-refused-by-every-observer")
		rt.Assert(vC03Observe(l) == before && len(store.Storage.(*inMemoryStorage).records) == stored, "refused-record-leaves-no-trace")
		rt.Reach("refused")
	} else if err == nil {
		rt.Reach("accepted")
	}
}
