//go:build verif

package encoding

import (
	"github.com/anyproto/any-sync/consensus/consensusproto"
	rt "github.com/anyproto/any-sync/internal/verifrt"
)

// VerifC11Snappy: every byte string handed to the stream encoding's Unmarshal (what a peer's frame
// carries) is decoded or refused; memory taken is bounded by the frame, not by the length the frame claims.
func VerifC11Snappy() {
	n := rt.Param("len", 6)
	b := rt.Bytes(n)
	msg := &consensusproto.RawRecord{}
	var err error
	rt.Bounded(1<<20, func() { err = snappyEncoding{}.Unmarshal(b, msg) })
	if err == nil {
		rt.Reach("accepted")
	} else {
		rt.Reach("rejected")
	}
}
