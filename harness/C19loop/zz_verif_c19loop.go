//go:build verif

package streampool

import (
	"context"

	"github.com/cheggaaa/mb/v3"
	"storj.io/drpc"

	"github.com/anyproto/any-sync/app"
	rt "github.com/anyproto/any-sync/internal/verifrt"
	"github.com/anyproto/any-sync/net/peer"
)

// The real per-stream queue and write loop against a peer whose writes complete only when the harness
// lets them: a slow, then stuck peer.  What a stream holds for such a peer is bounded by its queue size
// (plus the one message being written), the surplus is dropped at once, and the peer sees the accepted
// messages in the order they were accepted.

type vC19lMsg struct{ n int }

type vC19lStream struct {
	ctx  context.Context
	gate chan struct{}
	sent []int
}

func (s *vC19lStream) Context() context.Context { return s.ctx }
func (s *vC19lStream) MsgSend(msg drpc.Message, enc drpc.Encoding) error {
	<-s.gate
	rt.Atomic(func() { s.sent = append(s.sent, msg.(*vC19lMsg).n) })
	return nil
}
func (s *vC19lStream) MsgRecv(msg drpc.Message, enc drpc.Encoding) error { return nil }
func (s *vC19lStream) CloseSend() error                                  { return nil }
func (s *vC19lStream) Close() error                                      { return nil }

func VerifC19WriteLoop() {
	n := rt.Param("queue", 2)
	k := rt.Param("k", 6)
	ctx := context.Background()
	fs := &vC19lStream{ctx: ctx, gate: make(chan struct{})}
	sr := &stream{peerId: "p", peerCtx: ctx, stream: fs, streamId: 1, l: log, queue: mb.New[drpc.Message](n), stats: newStreamStat("p")}
	go sr.writeLoop()
	rt.Settle()
	var accepted []int
	next := 0
	for step := 0; step < k; step++ {
		var done int
		rt.Atomic(func() { done = len(fs.sent) })
		outstanding := len(accepted) - done
		if outstanding > 0 && rt.Choose(2) == 1 {
			// the peer takes one message
			fs.gate <- struct{}{}
			rt.Settle()
			rt.Reach("peer-progress")
		} else {
			// the writer is parked in MsgSend with one message (if anything is outstanding); the queue holds the rest
			queued := sr.queue.Len()
			err := sr.write(&vC19lMsg{n: next})
			if err == nil {
				accepted = append(accepted, next)
				rt.Reach("accepted")
			} else {
				rt.Assert(queued == n, "dropped-only-when-the-queue-is-full")
				rt.Reach("dropped")
			}
			next++
			rt.Settle()
		}
		rt.Atomic(func() { done = len(fs.sent) })
		rt.Assert(len(accepted)-done <= n+1, "stream-holds-at-most-queue-size-plus-the-message-in-flight")
		for i := 0; i < done; i++ {
			var got int
			rt.Atomic(func() { got = fs.sent[i] })
			rt.Assert(i < len(accepted) && got == accepted[i], "written-in-the-order-accepted")
		}
	}
	rt.Reach("done")
}

// ---- a dial that never completes must not hold a later sender past that sender's own patience

type vC19Ctx struct {
	context.Context
	done chan struct{}
	gone bool
}

func (c *vC19Ctx) Done() <-chan struct{} { return c.done }
func (c *vC19Ctx) Err() error {
	var g bool
	rt.Atomic(func() { g = c.gone })
	if g {
		return context.Canceled
	}
	return nil
}

type vC19dHandler struct{}

// the peer never answers the dial: OpenStream returns only when the dialling context ends
func (vC19dHandler) OpenStream(ctx context.Context, p peer.Peer) (drpc.Stream, []string, int, error) {
	<-ctx.Done()
	return nil, nil, 0, ctx.Err()
}
func (vC19dHandler) HandleMessage(ctx context.Context, peerId string, msg drpc.Message) error { return nil }
func (vC19dHandler) NewReadMessage() drpc.Message                                            { return nil }
func (vC19dHandler) Init(a *app.App) error                                                   { return nil }
func (vC19dHandler) Name() string                                                            { return "verif.handler" }

type vC19dPeer struct {
	peer.Peer
	id string
}

func (p *vC19dPeer) Id() string               { return p.id }
func (p *vC19dPeer) Context() context.Context { return context.Background() }

// VerifC19Dial: a first sender (no deadline) is stuck dialling a peer; a second sender to the same peer gives
// up when its own context ends, whatever the first one does.
func VerifC19Dial() {
	p := NewStreamPool(vC19dHandler{}, StreamConfig{}).(*streamPool)
	stuck := &vC19dPeer{id: "stuck"}
	first := &vC19Ctx{Context: context.Background(), done: make(chan struct{})}
	second := &vC19Ctx{Context: context.Background(), done: make(chan struct{})}
	go func() { _, _ = p.getStreams(first, stuck) }()
	rt.Settle()
	released := false
	go func() {
		_, err := p.getStreams(second, stuck)
		rt.Atomic(func() { released = err != nil })
	}()
	rt.Settle()
	rt.Atomic(func() { second.gone = true })
	close(second.done)
	rt.Settle()
	var r bool
	rt.Atomic(func() { r = released })
	rt.Assert(r, "a-sender-whose-context-ended-is-not-held-by-somebody-elses-stuck-dial")
	rt.Reach("released")
}

// ---- a write that fails ends the stream: every index entry and tag for it goes, later sends do not target it

type vC19fStream struct {
	ctx  context.Context
	gate chan bool
}

func (s *vC19fStream) Context() context.Context { return s.ctx }
func (s *vC19fStream) MsgSend(msg drpc.Message, enc drpc.Encoding) error {
	if fail := <-s.gate; fail {
		return context.DeadlineExceeded
	}
	return nil
}
func (s *vC19fStream) MsgRecv(msg drpc.Message, enc drpc.Encoding) error { return nil }
func (s *vC19fStream) CloseSend() error                                  { return nil }
func (s *vC19fStream) Close() error                                      { return nil }

func VerifC19WriteFail() {
	p := New().(*streamPool)
	fs := &vC19fStream{ctx: peer.CtxWithPeerId(context.Background(), "p0"), gate: make(chan bool)}
	st, err := p.addStream(fs, 2, "t0")
	rt.Assert(err == nil, "add-stream")
	go st.writeLoop()
	rt.Settle()
	rt.Assert(p.SendById(context.Background(), &vC19lMsg{n: 0}, "p0") == nil, "first-send-accepted")
	rt.Settle()
	fail := rt.Bool()
	fs.gate <- fail
	rt.Settle()
	p.mu.Lock()
	nStreams, nPeer, nTag := len(p.streams), len(p.streamIdsByPeer["p0"]), len(p.streamIdsByTag["t0"])
	p.mu.Unlock()
	if fail {
		rt.Assert(nStreams == 0 && nPeer == 0 && nTag == 0, "a-stream-whose-write-failed-leaves-every-index")
		rt.Assert(p.SendById(context.Background(), &vC19lMsg{n: 1}, "p0") != nil, "later-sends-do-not-target-the-ended-stream")
		rt.Reach("failed")
	} else {
		rt.Assert(nStreams == 1 && nPeer == 1 && nTag == 1, "a-healthy-stream-stays-indexed")
		rt.Reach("written")
	}
}
