//go:build verif

package commonspace

import (
	"context"

	"storj.io/drpc"

	"github.com/anyproto/any-sync/commonspace/spacesyncproto"
	rt "github.com/anyproto/any-sync/internal/verifrt"
	"github.com/anyproto/any-sync/net/peer"
)

// A peer's answer to a space pull (C11): whatever parts it leaves out, the puller reports an error; it does not panic.
type vC11Conn struct {
	drpc.Conn
	resp *spacesyncproto.SpacePullResponse
}

func (c *vC11Conn) Invoke(ctx context.Context, rpc string, enc drpc.Encoding, in, out drpc.Message) error {
	// through the wire encoding, as the peer's bytes arrive
	b, err := c.resp.MarshalVT()
	if err != nil {
		return err
	}
	return out.(*spacesyncproto.SpacePullResponse).UnmarshalVT(b)
}

type vC11Peer struct {
	peer.Peer
	conn *vC11Conn
}

func (p *vC11Peer) Id() string { return "evil" }
func (p *vC11Peer) DoDrpc(ctx context.Context, do func(conn drpc.Conn) error) error {
	return do(p.conn)
}

func VerifC11Pull() {
	resp := &spacesyncproto.SpacePullResponse{}
	switch rt.Choose(4) {
	case 0: // nothing at all
	case 1: // a payload without any part
		resp.Payload = &spacesyncproto.SpacePayload{}
	case 2: // a header that is not one
		resp.Payload = &spacesyncproto.SpacePayload{SpaceHeader: &spacesyncproto.RawSpaceHeaderWithId{Id: "zz.a", RawHeader: []byte{1}}}
	case 3: // only ACL records
		resp.AclRecords = []*spacesyncproto.AclRecord{{Id: "zz", AclPayload: []byte{1}}}
	}
	s := &spaceService{}
	_, err := s.spacePullWithPeer(context.Background(), &vC11Peer{conn: &vC11Conn{resp: resp}}, "zz.a", Deps{})
	rt.Assert(err != nil, "a-pull-answer-that-is-not-a-space-is-refused")
	rt.Reach("refused")
}
