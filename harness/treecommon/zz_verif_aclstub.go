//go:build verif

package list

import (
	"context"

	"github.com/anyproto/any-sync/consensus/consensusproto"
	"github.com/anyproto/any-sync/util/crypto"
)

// VerifAcl: a minimal AclList for tree-level harnesses: one record chain given
// by ids, an AclState in which the listed identities hold the listed
// permissions from given record indexes on.
type VerifAcl struct {
	Ids   []string
	State *AclState
	idx   map[string]int
}

type VerifPerm struct {
	Key    crypto.PubKey
	Since  []int // record index of each permission change
	Perms  []AclPermissions
}

func VerifNewAcl(ids []string, accounts []VerifPerm) *VerifAcl {
	a := &VerifAcl{Ids: ids, idx: map[string]int{}}
	for i, id := range ids {
		a.idx[id] = i
	}
	st := &AclState{
		id:              ids[0],
		accountStates:   map[string]AccountState{},
		invites:         map[string]Invite{},
		requestRecords:  map[string]RequestRecord{},
		pendingRequests: map[string]string{},
		readKeyChanges:  []string{ids[0]},
		lastRecordId:    ids[len(ids)-1],
	}
	inner := &aclList{indexes: a.idx, id: ids[0]}
	for _, id := range ids {
		inner.records = append(inner.records, &AclRecord{Id: id})
	}
	st.list = inner
	for _, acc := range accounts {
		as := AccountState{PubKey: acc.Key, Status: StatusActive, KeyRecordId: ids[0]}
		for i := range acc.Since {
			as.PermissionChanges = append(as.PermissionChanges, PermissionChange{RecordId: ids[acc.Since[i]], Permission: acc.Perms[i]})
			as.Permissions = acc.Perms[i]
		}
		st.accountStates[mapKeyFromPubKey(acc.Key)] = as
	}
	inner.aclState = st
	a.State = st
	return a
}

func (a *VerifAcl) Lock()    {}
func (a *VerifAcl) Unlock()  {}
func (a *VerifAcl) RLock()   {}
func (a *VerifAcl) RUnlock() {}
func (a *VerifAcl) Id() string { return a.Ids[0] }
func (a *VerifAcl) Root() *consensusproto.RawRecordWithId { return &consensusproto.RawRecordWithId{Id: a.Ids[0]} }
func (a *VerifAcl) Records() []*AclRecord { return a.State.list.records }
func (a *VerifAcl) AclState() *AclState   { return a.State }
func (a *VerifAcl) IsAfter(first string, second string) (bool, error) {
	return a.State.list.IsAfter(first, second)
}
func (a *VerifAcl) HasHead(head string) bool { return a.State.list.HasHead(head) }
func (a *VerifAcl) Head() *AclRecord         { return a.State.list.Head() }
func (a *VerifAcl) RecordsAfter(ctx context.Context, id string) ([]*consensusproto.RawRecordWithId, error) {
	return nil, nil
}
func (a *VerifAcl) RecordsBefore(ctx context.Context, headId string) ([]*consensusproto.RawRecordWithId, error) {
	return nil, nil
}
func (a *VerifAcl) Get(id string) (*AclRecord, error)    { return a.State.list.Get(id) }
func (a *VerifAcl) GetIndex(idx int) (*AclRecord, error) { return a.State.list.GetIndex(idx) }
func (a *VerifAcl) GetRecordIndex(recordId string) int   { return a.State.list.GetRecordIndex(recordId) }
func (a *VerifAcl) Iterate(iterFunc IterFunc)            { a.State.list.Iterate(iterFunc) }
func (a *VerifAcl) IterateFrom(startId string, iterFunc IterFunc) {
	a.State.list.IterateFrom(startId, iterFunc)
}
func (a *VerifAcl) KeyStorage() crypto.KeyStorage     { return nil }
func (a *VerifAcl) RecordBuilder() AclRecordBuilder   { return nil }
func (a *VerifAcl) ValidateRawRecord(rawRec *consensusproto.RawRecord, afterValid func(state *AclState) error) error {
	return nil
}
func (a *VerifAcl) AddRawRecord(rawRec *consensusproto.RawRecordWithId) error     { return nil }
func (a *VerifAcl) AddRawRecords(rawRecords []*consensusproto.RawRecordWithId) error { return nil }
func (a *VerifAcl) Close(ctx context.Context) error { return nil }

// SetIdentity: the account whose view this list is
func (a *VerifAcl) SetIdentity(k crypto.PubKey) { a.State.pubKey = k }
