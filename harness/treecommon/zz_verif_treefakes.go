//go:build verif

package objecttree

import (
	"context"
	"errors"

	libcrypto "github.com/libp2p/go-libp2p/core/crypto"

	"github.com/anyproto/any-sync/commonspace/object/acl/list"
	"github.com/anyproto/any-sync/commonspace/object/tree/treechangeproto"
	"github.com/anyproto/any-sync/util/crypto"
)

// ---- in-memory tree storage with the semantics of the any-store backed one:
// Get by id, GetAfterOrder = all changes with OrderId >= the argument in
// ascending OrderId, AddAll = atomic insert (duplicate id is an error) plus
// heads / common snapshot update.  A fault can be injected at the k-th call.

var errVStoreFault = errors.New("verif: injected storage fault")
var errVStoreNotFound = errors.New("verif: document not found")

type vStore struct {
	id       string
	changes  map[string]StorageChange
	heads    []string
	common   string
	calls    int
	failAt   int // -1 = never
	faulted  bool
	seq      uint64
	addCalls int
}

func newVStore(root StorageChange) *vStore {
	s := &vStore{id: root.Id, changes: map[string]StorageChange{}, failAt: -1}
	root.TreeId = root.Id
	s.changes[root.Id] = root
	s.heads = []string{root.Id}
	s.common = root.Id
	return s
}

func (s *vStore) tick() error {
	k := s.calls
	s.calls++
	if k == s.failAt {
		s.faulted = true
		return errVStoreFault
	}
	return nil
}

func (s *vStore) clone() *vStore {
	c := &vStore{id: s.id, changes: map[string]StorageChange{}, failAt: -1, common: s.common, seq: s.seq}
	for k, v := range s.changes {
		c.changes[k] = v
	}
	c.heads = append([]string{}, s.heads...)
	return c
}

func (s *vStore) Id() string { return s.id }
func (s *vStore) Root(ctx context.Context) (StorageChange, error) {
	return s.changes[s.id], nil
}
func (s *vStore) Heads(ctx context.Context) ([]string, error) {
	if err := s.tick(); err != nil {
		return nil, err
	}
	return append([]string{}, s.heads...), nil
}
func (s *vStore) CommonSnapshot(ctx context.Context) (string, error) {
	if err := s.tick(); err != nil {
		return "", err
	}
	return s.common, nil
}
func (s *vStore) Has(ctx context.Context, id string) (bool, error) {
	if err := s.tick(); err != nil {
		return false, err
	}
	_, ok := s.changes[id]
	return ok, nil
}
func (s *vStore) Get(ctx context.Context, id string) (StorageChange, error) {
	if err := s.tick(); err != nil {
		return StorageChange{}, err
	}
	c, ok := s.changes[id]
	if !ok {
		return StorageChange{}, errVStoreNotFound
	}
	return c, nil
}

func (s *vStore) sorted() []StorageChange {
	var all []StorageChange
	for _, c := range s.changes {
		all = append(all, c)
	}
	// insertion sort by OrderId, ties by id (no reflection: sort.Slice is not modelled)
	for i := 1; i < len(all); i++ {
		for j := i; j > 0 && (all[j].OrderId < all[j-1].OrderId || (all[j].OrderId == all[j-1].OrderId && all[j].Id < all[j-1].Id)); j-- {
			all[j], all[j-1] = all[j-1], all[j]
		}
	}
	return all
}

func (s *vStore) GetAfterOrder(ctx context.Context, orderId string, iter StorageIterator) error {
	if err := s.tick(); err != nil {
		return err
	}
	for _, c := range s.sorted() {
		if c.OrderId < orderId {
			continue
		}
		cont, err := iter(ctx, c)
		if !cont {
			return err
		}
	}
	return nil
}

func (s *vStore) GetAfterAddSeq(ctx context.Context, addSeq uint64, iter StorageIterator) error {
	for _, c := range s.sorted() {
		if c.AddSeq <= addSeq {
			continue
		}
		cont, err := iter(ctx, c)
		if !cont {
			return err
		}
	}
	return nil
}

func (s *vStore) AddAll(ctx context.Context, changes []StorageChange, heads []string, commonSnapshot string) error {
	s.addCalls++
	if err := s.tick(); err != nil {
		return err
	}
	for _, c := range changes {
		if _, ok := s.changes[c.Id]; ok {
			return errors.New("verif: document exists")
		}
	}
	s.seq++
	for _, c := range changes {
		c.AddSeq = s.seq
		c.TreeId = s.id
		c.PrevIds = append([]string{}, c.PrevIds...)
		s.changes[c.Id] = c
	}
	s.heads = append([]string{}, heads...)
	s.common = commonSnapshot
	return nil
}

func (s *vStore) AddAllNoError(ctx context.Context, changes []StorageChange, heads []string, commonSnapshot string) error {
	var fresh []StorageChange
	for _, c := range changes {
		if _, ok := s.changes[c.Id]; !ok {
			fresh = append(fresh, c)
		}
	}
	return s.AddAll(ctx, fresh, heads, commonSnapshot)
}
func (s *vStore) Delete(ctx context.Context) error {
	if err := s.tick(); err != nil {
		return err
	}
	s.changes = map[string]StorageChange{}
	return nil
}
func (s *vStore) Close() error                     { return nil }

// ---- change builder without protobuf or crypto: a raw change is looked up by id.

type vBuilder struct {
	table   map[string]*Change
	sizes   map[string]int
	nextIds []string
	built   int
	// strict: with verification asked for, the raw bytes must be exactly the ones registered under the id
	// (all zero) - the stand-in for "the id is the hash of the bytes and the signature covers them"
	strict bool
}

func newVBuilder() *vBuilder {
	return &vBuilder{table: map[string]*Change{}, sizes: map[string]int{}}
}

func vCopyChange(c *Change) *Change {
	n := &Change{Id: c.Id, SnapshotId: c.SnapshotId, IsSnapshot: c.IsSnapshot, AclHeadId: c.AclHeadId, Identity: c.Identity,
		Timestamp: c.Timestamp, Data: c.Data, IsDerived: c.IsDerived, ReadKeyId: c.ReadKeyId, DataType: c.DataType, ParentId: c.ParentId}
	n.PreviousIds = append([]string{}, c.PreviousIds...)
	return n
}

func (b *vBuilder) register(c *Change, size int) *treechangeproto.RawTreeChangeWithId {
	b.table[c.Id] = vCopyChange(c)
	b.sizes[c.Id] = size
	return b.raw(c.Id)
}

func (b *vBuilder) raw(id string) *treechangeproto.RawTreeChangeWithId {
	return &treechangeproto.RawTreeChangeWithId{Id: id, RawChange: make([]byte, b.sizes[id])}
}

func (b *vBuilder) Unmarshall(raw *treechangeproto.RawTreeChangeWithId, verify bool) (*Change, error) {
	p, ok := b.table[raw.Id]
	if !ok {
		return nil, errors.New("verif: unknown raw change")
	}
	if b.strict && verify {
		if len(raw.RawChange) != b.sizes[raw.Id] {
			return nil, ErrIncorrectCid
		}
		for _, c := range raw.RawChange {
			if c != 0 {
				return nil, ErrIncorrectCid
			}
		}
	}
	return vCopyChange(p), nil
}
func (b *vBuilder) UnmarshallReduced(raw *treechangeproto.RawTreeChangeWithId) (*Change, error) {
	return b.Unmarshall(raw, false)
}
func (b *vBuilder) Build(p BuilderContent) (*Change, *treechangeproto.RawTreeChangeWithId, error) {
	if b.built >= len(b.nextIds) {
		return nil, nil, errors.New("verif: id pool exhausted")
	}
	id := b.nextIds[b.built]
	b.built++
	c := &Change{Id: id, SnapshotId: p.SnapshotBaseId, IsSnapshot: p.IsSnapshot, AclHeadId: p.AclHeadId, Data: p.Content, Timestamp: p.Timestamp}
	if p.PrivKey != nil {
		c.Identity = p.PrivKey.GetPublic()
	}
	c.PreviousIds = append([]string{}, p.TreeHeadIds...)
	raw := b.register(c, 1)
	return vCopyChange(c), raw, nil
}
func (b *vBuilder) BuildRoot(p InitialContent) (*Change, *treechangeproto.RawTreeChangeWithId, error) {
	return nil, nil, errors.New("verif: not modelled")
}
func (b *vBuilder) BuildDerivedRoot(p InitialDerivedContent) (*Change, *treechangeproto.RawTreeChangeWithId, error) {
	return nil, nil, errors.New("verif: not modelled")
}
func (b *vBuilder) Marshall(ch *Change) (*treechangeproto.RawTreeChangeWithId, error) {
	return b.raw(ch.Id), nil
}

// ---- validator accepting everything (the validation rules are C02's subject)

type vNoValidator struct{}

func (vNoValidator) ValidateFullTree(tree *Tree, aclList list.AclList) error { return nil }
func (vNoValidator) ValidateNewChanges(tree *Tree, aclList list.AclList, newChanges []*Change) error {
	return nil
}
func (vNoValidator) FilterChanges(aclList list.AclList, changes []*Change, snapshots []*Change) (bool, []*Change, []*Change) {
	return false, changes, snapshots
}

// ---- keys for local adds

type vTreeKey struct{ id string }

func (k *vTreeKey) Equals(o crypto.Key) bool {
	p, ok := o.(*vTreeKey)
	return ok && p.id == k.id
}
func (k *vTreeKey) Raw() ([]byte, error)                         { return []byte(k.id), nil }
func (k *vTreeKey) Decrypt(msg []byte) ([]byte, error)           { return msg, nil }
func (k *vTreeKey) Sign(d []byte) ([]byte, error)                { return []byte("sig"), nil }
func (k *vTreeKey) GetPublic() crypto.PubKey                     { return &vTreePub{id: k.id} }
func (k *vTreeKey) Marshall() ([]byte, error)                    { return []byte(k.id), nil }
func (k *vTreeKey) LibP2P() (libcrypto.PrivKey, error)                    { return nil, errors.New("n/a") }

type vTreePub struct{ id string }

func (k *vTreePub) Equals(o crypto.Key) bool {
	p, ok := o.(*vTreePub)
	return ok && p.id == k.id
}
func (k *vTreePub) Raw() ([]byte, error)                      { return []byte(k.id), nil }
func (k *vTreePub) Encrypt(m []byte) ([]byte, error)          { return m, nil }
func (k *vTreePub) Verify(d []byte, s []byte) (bool, error)   { return true, nil }
func (k *vTreePub) Marshall() ([]byte, error)                 { return []byte(k.id), nil }
func (k *vTreePub) Storage() []byte                           { return []byte(k.id) }
func (k *vTreePub) Account() string                           { return k.id }
func (k *vTreePub) Network() string                           { return k.id }
func (k *vTreePub) PeerId() string                            { return k.id }
func (k *vTreePub) LibP2P() (libcrypto.PubKey, error)                  { return nil, errors.New("n/a") }

// ---- a replica: the real objectTree over the fakes

type vReplica struct {
	store   *vStore
	builder *vBuilder
	acl     *list.VerifAcl
	ot      *objectTree
}

func vBuildObjectTree(store *vStore, builder *vBuilder, acl list.AclList) (*objectTree, error) {
	deps := objectTreeDeps{
		changeBuilder: builder,
		treeBuilder:   newTreeBuilder(store, builder),
		storage:       store,
		validator:     vNoValidator{},
		aclList:       acl,
		flusher:       &defaultFlusher{},
	}
	t, err := buildObjectTree(deps)
	if err != nil {
		return nil, err
	}
	return t.(*objectTree), nil
}

func vNewReplica(rootId string, builder *vBuilder, writer string) (*vReplica, error) {
	rootCh := &Change{Id: rootId, IsSnapshot: true, AclHeadId: "acl0"}
	if _, ok := builder.table[rootId]; !ok {
		builder.register(rootCh, 1)
	}
	store := newVStore(StorageChange{Id: rootId, RawChange: make([]byte, 1), SnapshotCounter: 1, OrderId: lexId.Next(""), ChangeSize: 1})
	acl := list.VerifNewAcl([]string{"acl0"}, []list.VerifPerm{{Key: &vTreePub{id: writer}, Since: []int{0}, Perms: []list.AclPermissions{list.AclPermissionsWriter}}})
	ot, err := vBuildObjectTree(store, builder, acl)
	if err != nil {
		return nil, err
	}
	return &vReplica{store: store, builder: builder, acl: acl, ot: ot}, nil
}

func vSeqIds(t *Tree) []string {
	var ids []string
	t.iterate(t.root, func(c *Change) bool {
		ids = append(ids, c.Id)
		return true
	})
	return ids
}

func vIndexOf(l []string, s string) int {
	for i, e := range l {
		if e == s {
			return i
		}
	}
	return -1
}

func vSameSet(a, b []string) bool {
	if len(a) != len(b) {
		return false
	}
	for _, x := range a {
		if vIndexOf(b, x) < 0 {
			return false
		}
	}
	return true
}
