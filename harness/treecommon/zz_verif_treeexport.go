//go:build verif

package objecttree

import (
	"context"

	"github.com/anyproto/any-sync/util/crypto"
)

// exported handles on the tree fakes for harnesses living in other packages (synctree)

type VerifBuilder struct{ b *vBuilder }

// VerifNewBuilder: the shared universe of raw changes; ids of built changes are taken from the pool in order
func VerifNewBuilder(idPool []string) *VerifBuilder {
	b := newVBuilder()
	b.nextIds = idPool
	return &VerifBuilder{b: b}
}

type VerifReplica struct{ r *vReplica }

func VerifNewReplica(rootId string, b *VerifBuilder, writer string) (*VerifReplica, error) {
	r, err := vNewReplica(rootId, b.b, writer)
	if err != nil {
		return nil, err
	}
	return &VerifReplica{r: r}, nil
}

func (v *VerifReplica) Tree() ObjectTree { return v.r.ot }

func VerifKey(id string) crypto.PrivKey { return &vTreeKey{id: id} }

// StoredIds: ids of every stored change
func (v *VerifReplica) StoredIds() []string {
	var ids []string
	for _, c := range v.r.store.sorted() {
		ids = append(ids, c.Id)
	}
	return ids
}

// Closed: every stored change's parents and snapshot base are stored, the recorded heads are stored, and the
// live tree's heads are the recorded heads
func (v *VerifReplica) Closed() (parents, heads, live bool) {
	parents, heads, live = true, true, true
	for _, c := range v.r.store.changes {
		for _, p := range c.PrevIds {
			if _, ok := v.r.store.changes[p]; !ok {
				parents = false
			}
		}
		if c.SnapshotId != "" {
			if _, ok := v.r.store.changes[c.SnapshotId]; !ok {
				parents = false
			}
		}
	}
	sh, _ := v.r.store.Heads(context.Background())
	for _, h := range sh {
		if _, ok := v.r.store.changes[h]; !ok {
			heads = false
		}
	}
	live = vSameSet(sh, v.r.ot.Heads())
	return
}
