//go:build verif

package settings

import (
	"context"

	"github.com/anyproto/any-sync/accountservice"
	"github.com/anyproto/any-sync/app"
	"github.com/anyproto/any-sync/commonspace/object/accountdata"
	"github.com/anyproto/any-sync/commonspace/object/tree/objecttree"
	"github.com/anyproto/any-sync/commonspace/object/tree/synctree"
	"github.com/anyproto/any-sync/commonspace/settings/settingsstate"
	"github.com/anyproto/any-sync/commonspace/spacesyncproto"
	rt "github.com/anyproto/any-sync/internal/verifrt"
)

// The real settings object recording a local deletion: the deletion change is written to the settings tree
// (a fake tree that behaves as the real one presents itself: a snapshot change re-roots it and reports
// Rebuild, a plain change is appended and reports Append), and whatever the mode, the deleted id must reach
// the state that is handed to the deletion manager.

type vC15oTree struct {
	synctree.SyncTree
	log []*objecttree.Change
	n   int
}

func (t *vC15oTree) Root() *objecttree.Change { return t.log[0] }
func (t *vC15oTree) Len() int                 { return len(t.log) }
func (t *vC15oTree) IterateFrom(id string, convert objecttree.ChangeConvertFunc, iterate objecttree.ChangeIterateFunc) error {
	started := false
	for _, c := range t.log {
		if c.Id == id {
			started = true
		}
		if !started {
			continue
		}
		if c.Model == nil && len(c.PreviousIds) > 0 {
			m, err := convert(c, c.Data)
			if err != nil {
				return err
			}
			c.Model = m
		}
		if !iterate(c) {
			break
		}
	}
	return nil
}
func (t *vC15oTree) AddContent(ctx context.Context, content objecttree.SignableChangeContent) (objecttree.AddResult, error) {
	t.n++
	id := []string{"n1", "n2", "n3"}[t.n-1]
	ch := &objecttree.Change{Id: id, PreviousIds: []string{t.log[len(t.log)-1].Id}, Data: content.Data, IsSnapshot: content.IsSnapshot}
	if content.IsSnapshot {
		// the tree is reduced to the new snapshot
		t.log = []*objecttree.Change{ch}
		return objecttree.AddResult{Mode: objecttree.Rebuild}, nil
	}
	t.log = append(t.log, ch)
	return objecttree.AddResult{Mode: objecttree.Append}, nil
}

type vC15oAccount struct{ keys *accountdata.AccountKeys }

func (a *vC15oAccount) Init(*app.App) error               { return nil }
func (a *vC15oAccount) Name() string                      { return accountservice.CName }
func (a *vC15oAccount) Account() *accountdata.AccountKeys { return a.keys }

type vC15oManager struct{ last *settingsstate.State }

func (m *vC15oManager) Init(*app.App) error              { return nil }
func (m *vC15oManager) Name() string                     { return "verif.deletionmanager" }
func (m *vC15oManager) Run(ctx context.Context) error    { return nil }
func (m *vC15oManager) Close(ctx context.Context) error  { return nil }
func (m *vC15oManager) UpdateState(ctx context.Context, state *settingsstate.State) error {
	m.last = state
	return nil
}

// VerifC15Object: k local deletions, each written as a plain or as a snapshot change; after each, every id
// deleted so far is in the state the deletion manager received.
func VerifC15Object() {
	k := rt.Param("k", 3)
	objs := []string{"o1", "o2", "o3"}
	tree := &vC15oTree{log: []*objecttree.Change{{Id: "c0"}}}
	mgr := &vC15oManager{}
	s := &settingsObject{
		SyncTree:        tree,
		account:         &vC15oAccount{keys: &accountdata.AccountKeys{}},
		builder:         settingsstate.NewStateBuilder(),
		changeFactory:   settingsstate.NewChangeFactory(),
		deletionManager: mgr,
	}
	rt.Assert(s.Rebuild(tree) == nil, "initial-build")
	deleted := map[string]bool{}
	for i := 0; i < k; i++ {
		id := objs[i]
		isSnapshot := rt.Bool()
		data, err := s.changeFactory.CreateObjectDeleteChange([]string{id}, s.state, isSnapshot)
		rt.Assert(err == nil, "change-built")
		rt.Assert(s.addContent(context.Background(), data, isSnapshot) == nil, "deletion-written")
		deleted[id] = true
		for _, o := range objs {
			if deleted[o] {
				rt.Assert(mgr.last != nil && mgr.last.Exists(o), "a-recorded-local-deletion-reaches-the-deletion-manager")
			}
		}
		_ = spacesyncproto.SettingsData{}
	}
	rt.Reach("recorded")
}
