//go:build verif

package keyvaluestorage

import (
	"context"
	"errors"

	"github.com/cespare/xxhash"
	libcrypto "github.com/libp2p/go-libp2p/core/crypto"

	"github.com/anyproto/any-sync/commonspace/object/acl/list"
	"github.com/anyproto/any-sync/commonspace/object/keyvalue/keyvaluestorage/innerstorage"
	"github.com/anyproto/any-sync/commonspace/spacesyncproto"
	"github.com/anyproto/any-sync/internal/verifkv"
	rt "github.com/anyproto/any-sync/internal/verifrt"
	"github.com/anyproto/any-sync/util/crypto"
)

type vC12Pub struct{ id string }

func (k *vC12Pub) Equals(o crypto.Key) bool {
	p, ok := o.(*vC12Pub)
	return ok && p.id == k.id
}
func (k *vC12Pub) Raw() ([]byte, error)             { return []byte(k.id), nil }
func (k *vC12Pub) Encrypt(m []byte) ([]byte, error) { return m, nil }
func (k *vC12Pub) Verify(d []byte, s []byte) (bool, error) {
	return string(s) == "S("+k.id+")"+string(d), nil
}
func (k *vC12Pub) Marshall() ([]byte, error)         { return []byte(k.id), nil }
func (k *vC12Pub) Storage() []byte                   { return []byte(k.id) }
func (k *vC12Pub) Account() string                   { return k.id }
func (k *vC12Pub) Network() string                   { return k.id }
func (k *vC12Pub) PeerId() string                    { return k.id }
func (k *vC12Pub) LibP2P() (libcrypto.PubKey, error) { return nil, errors.New("n/a") }

type vC12Sync struct{ sent int }

func (s *vC12Sync) Broadcast(ctx context.Context, objectId string, keyValues ...innerstorage.KeyValue) error {
	s.sent += len(keyValues)
	return nil
}

func vC12Install() {
	rt.Replace("github.com/anyproto/any-sync/util/crypto.UnmarshalEd25519PublicKeyProto", func(b []byte) (crypto.PubKey, error) {
		if len(b) == 0 {
			return nil, errors.New("verif: empty key")
		}
		return &vC12Pub{id: string(b)}, nil
	})
	rt.Replace("github.com/anyproto/any-sync/util/crypto.DecodeAccountAddress", func(address string) (crypto.PubKey, error) {
		if len(address) == 0 {
			return nil, errors.New("verif: empty address")
		}
		return &vC12Pub{id: address}, nil
	})
	// slot ids are concrete here: a concrete hash function is enough (the index itself is C07/C08's subject)
	xxhash.VerifSum64 = func(b []byte) uint64 {
		h := uint64(14695981039346656037)
		for _, c := range b {
			h ^= uint64(c)
			h *= 1099511628211
		}
		return h
	}
}

func vC12Acl(writerPerm list.AclPermissions) *list.VerifAcl {
	return list.VerifNewAcl([]string{"acl0", "acl1"}, []list.VerifPerm{
		{Key: &vC12Pub{id: "alice"}, Since: []int{0}, Perms: []list.AclPermissions{list.AclPermissionsWriter}},
		{Key: &vC12Pub{id: "bob"}, Since: []int{0, 1}, Perms: []list.AclPermissions{writerPerm, list.AclPermissionsReader}},
	})
}

func vC12Store(w *verifkv.World, acl list.AclList) *storage {
	inner, err := innerstorage.New(context.Background(), "kv", &verifkv.HeadStorage{W: w}, &verifkv.DB{W: w})
	rt.Assert(err == nil, "inner-storage-opens")
	return &storage{inner: inner, aclList: acl, syncClient: &vC12Sync{}, indexer: NoOpIndexer{}, storageId: "kv",
		byteRepr: make([]byte, 8), readKeys: map[string]crypto.SymKey{}}
}

// a value as a device would build it: inner bytes signed by the device and the account
func vC12Value(key, peer, identity, aclId string, ts int64) *spacesyncproto.StoreKeyValue {
	// the inner message is encoded by the real MarshalVT except for the timestamp, which is spliced in
	// as a fixed-shape 10-byte varint (a legal protobuf encoding every decoder accepts): the minimal
	// encoding of a symbolic integer has a data-dependent length, which is not what is under test here
	head, _ := (&spacesyncproto.StoreKeyInner{Peer: []byte(peer), Identity: []byte(identity), Value: []byte("v")}).MarshalVT()
	tail, _ := (&spacesyncproto.StoreKeyInner{AclHeadId: aclId, Key: key}).MarshalVT()
	inner := append([]byte{}, head...)
	inner = append(inner, 4<<3|0) // field 4, wire type varint
	u := uint64(ts)
	for i := 0; i < 9; i++ {
		inner = append(inner, byte(u>>(7*uint(i)))&0x7f|0x80)
	}
	inner = append(inner, byte(u>>63)&0x01)
	inner = append(inner, tail...)
	return &spacesyncproto.StoreKeyValue{KeyPeerId: key + "-" + peer, Value: inner,
		PeerSignature: []byte("S(" + peer + ")" + string(inner)), IdentitySignature: []byte("S(" + identity + ")" + string(inner))}
}

func vC12StoredTs(w *verifkv.World, slot string) (int64, bool) {
	d, ok := w.Docs[slot]
	if !ok {
		return 0, false
	}
	return int64(d.GetFloat64("t")), true
}

// VerifC12Converge: the slot keeps the value with the greatest timestamp whatever the arrival order and batching.
func VerifC12Converge() {
	dom := rt.Param("domain", 1)
	vC12Install()
	a, b := rt.I64(), rt.I64()
	rt.Assume(a != b)
	if dom == 1 {
		// documented domain: microsecond timestamps, exact in float64
		rt.Assume(rt.AllOf(a >= 0, a < 1<<53, b >= 0, b < 1<<53))
	}
	ctx := context.Background()
	va := vC12Value("k", "dev1", "alice", "acl0", a)
	vb := vC12Value("k", "dev1", "alice", "acl0", b)
	wx, wy, wz := verifkv.NewWorld(), verifkv.NewWorld(), verifkv.NewWorld()
	x, y, z := vC12Store(wx, vC12Acl(list.AclPermissionsWriter)), vC12Store(wy, vC12Acl(list.AclPermissionsWriter)), vC12Store(wz, vC12Acl(list.AclPermissionsWriter))
	rt.Assert(x.SetRaw(ctx, va) == nil && x.SetRaw(ctx, vb) == nil, "setraw-x")
	rt.Assert(y.SetRaw(ctx, vb) == nil && y.SetRaw(ctx, va) == nil, "setraw-y")
	if rt.Choose(2) == 0 {
		rt.Assert(z.SetRaw(ctx, va, vb) == nil, "setraw-z")
	} else {
		rt.Assert(z.SetRaw(ctx, vb, va, vb) == nil, "setraw-z")
	}
	// values whose timestamp is outside [0, 2^53) are not valid values at all: they must be stored nowhere
	validA := a >= 0 && a < 1<<53
	validB := b >= 0 && b < 1<<53
	tx, okx := vC12StoredTs(wx, "k-dev1")
	ty, oky := vC12StoredTs(wy, "k-dev1")
	tz, okz := vC12StoredTs(wz, "k-dev1")
	if !validA && !validB {
		rt.Assert(!okx && !oky && !okz, "out-of-range-timestamps-are-not-stored")
		rt.Reach("nothing-valid")
		return
	}
	max := a
	if !validA || (validB && b > a) {
		max = b
	}
	rt.Assert(okx && oky && okz, "slot-stored-everywhere")
	rt.Assert(tx == max, "keeps-greatest-timestamp-order-ab")
	rt.Assert(ty == max, "keeps-greatest-timestamp-order-ba")
	rt.Assert(tz == max, "keeps-greatest-timestamp-batched")
	rt.Assert(x.inner.Diff().Hash() == y.inner.Diff().Hash() && y.inner.Diff().Hash() == z.inner.Diff().Hash(), "advertised-index-independent-of-arrival")
	// one more sync exchange changes nothing
	newIds, changed, theirChanged, removed, err := x.inner.Diff().CompareDiff(ctx, y.inner.Diff())
	rt.Assert(err == nil && len(newIds)+len(changed)+len(theirChanged)+len(removed) == 0, "stores-equal-after-exchange")
	rt.Reach("converged")
}

// VerifC12Auth: a value is stored only if both signatures verify over the stored bytes, it is filed under the
// slot its signed bytes name, and its author could write at the known ACL record it cites.
func VerifC12Auth() {
	vC12Install()
	ctx := context.Background()
	bobPerm := []list.AclPermissions{list.AclPermissionsWriter, list.AclPermissionsReader, list.AclPermissionsNone}[rt.Choose(3)]
	w := verifkv.NewWorld()
	s := vC12Store(w, vC12Acl(bobPerm))
	identity := []string{"alice", "bob", "mallory"}[rt.Choose(3)]
	aclId := []string{"acl0", "acl1", "aclX"}[rt.Choose(3)]
	v := vC12Value("k", "dev1", identity, aclId, 5)
	mut := rt.Choose(6)
	switch mut {
	case 1: // relabelled: filed under another key / device than the signed bytes name
		v.KeyPeerId = []string{"other-dev1", "k-dev2", "k", "k-x-dev1", "k--dev1", "k-dev1-dev1", "k-k-dev1"}[rt.Choose(7)]
	case 2:
		v.PeerSignature = []byte("S(dev2)" + string(v.Value))
	case 3:
		v.IdentitySignature = []byte("S(zz)" + string(v.Value))
	case 4: // bytes altered after signing
		v.Value = append(append([]byte{}, v.Value...), 0)
	case 5: // signatures swapped
		v.PeerSignature, v.IdentitySignature = v.IdentitySignature, v.PeerSignature
	}
	err := s.SetRaw(ctx, v)
	rt.Assert(err == nil, "setraw-skips-bad-values-without-error")
	stored := len(w.Docs) > 0
	if !stored {
		rt.Reach("not-stored")
		return
	}
	rt.Reach("stored")
	rt.Assert(mut == 0, "stored-value-is-unmutated")
	_, underSlot := w.Docs["k-dev1"]
	rt.Assert(underSlot && len(w.Docs) == 1, "filed-under-the-slot-named-in-the-signed-bytes")
	rt.Assert(aclId != "aclX", "cited-acl-record-is-known")
	// author held write permission at the cited record: alice always; bob only at acl0 when granted; mallory never
	canWrite := identity == "alice" || (identity == "bob" && aclId == "acl0" && bobPerm == list.AclPermissionsWriter)
	rt.Assert(canWrite, "author-could-write-at-cited-record")
}

// VerifC12AuthBatch: in one batch every value is judged on its own: it is stored exactly when its author could
// write at the record that this value cites, whatever else the batch carries and in whatever order.
func VerifC12AuthBatch() {
	vC12Install()
	ctx := context.Background()
	bobPerm := []list.AclPermissions{list.AclPermissionsWriter, list.AclPermissionsReader, list.AclPermissionsNone}[rt.Choose(3)]
	w := verifkv.NewWorld()
	s := vC12Store(w, vC12Acl(bobPerm))
	keys := []string{"k", "j"}
	var vals []*spacesyncproto.StoreKeyValue
	var can []bool
	for i := 0; i < 2; i++ {
		identity := []string{"alice", "bob", "mallory"}[rt.Choose(3)]
		aclId := []string{"acl0", "acl1"}[rt.Choose(2)]
		vals = append(vals, vC12Value(keys[i], "dev1", identity, aclId, 5))
		can = append(can, identity == "alice" || (identity == "bob" && aclId == "acl0" && bobPerm == list.AclPermissionsWriter))
	}
	rt.Assert(s.SetRaw(ctx, vals...) == nil, "setraw-skips-bad-values-without-error")
	for i := 0; i < 2; i++ {
		_, stored := w.Docs[keys[i]+"-dev1"]
		rt.Assert(stored == can[i], "each-value-of-a-batch-is-authorised-on-its-own")
	}
	rt.Reach("batch")
}

// VerifC12Fault: a failed write leaves the advertised index equal to what is stored.
func VerifC12Fault() {
	vC12Install()
	ctx := context.Background()
	w := verifkv.NewWorld()
	s := vC12Store(w, vC12Acl(list.AclPermissionsWriter))
	rt.Assert(s.SetRaw(ctx, vC12Value("k", "dev1", "alice", "acl0", 5)) == nil, "setup")
	// batch shapes: one value; a second slot; the same slot twice (ascending / descending); same slot twice + a second slot
	shape := rt.Choose(5)
	vals := []*spacesyncproto.StoreKeyValue{vC12Value("k", "dev1", "alice", "acl0", 9)}
	want := int64(9)
	switch shape {
	case 1:
		vals = append(vals, vC12Value("j", "dev1", "alice", "acl0", 3))
	case 2:
		vals = append(vals, vC12Value("k", "dev1", "alice", "acl0", 12))
		want = 12
	case 3:
		vals = []*spacesyncproto.StoreKeyValue{vC12Value("k", "dev1", "alice", "acl0", 12), vals[0]}
		want = 12
	case 4:
		vals = append(vals, vC12Value("j", "dev1", "alice", "acl0", 3), vC12Value("k", "dev1", "alice", "acl0", 12), vC12Value("j", "dev1", "alice", "acl0", 4))
		want = 12
	}
	w.Calls = 0
	w.FailAt = rt.Choose(8)
	err := s.SetRaw(ctx, vals...)
	faulted := w.Faulted
	w.FailAt = -1
	if faulted {
		rt.Assert(err != nil, "fault-is-reported")
		rt.Reach("faulted")
	} else {
		rt.Assert(err == nil, "no-fault-no-error")
	}
	// the index advertises exactly what the collection holds
	els := s.inner.Diff().Elements()
	rt.Assert(len(els) == len(w.Docs), "index-size-equals-stored")
	for _, el := range els {
		d, ok := w.Docs[el.Id]
		rt.Assert(ok, "index-lists-only-stored-slots")
		if ok {
			ts := int64(d.GetFloat64("t"))
			head := []byte(el.Head)
			var got uint64
			for _, c := range head {
				got = got<<8 | uint64(c)
			}
			rt.Assert(int64(got) == ts, "index-head-is-stored-timestamp")
		}
	}
	if faulted {
		// and the same values are accepted on retry
		rt.Assert(s.SetRaw(ctx, vals...) == nil, "retry-after-fault-succeeds")
		t, _ := vC12StoredTs(w, "k-dev1")
		rt.Assert(t == want, "retry-stores-the-value")
	} else {
		t, _ := vC12StoredTs(w, "k-dev1")
		rt.Assert(t == want, "batch-keeps-greatest-of-repeated-slot")
	}
	rt.Reach("fault-checked")
}
