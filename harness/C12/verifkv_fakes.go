//go:build verif

// Package verifkv: in-memory stand-ins for the subset of any-store and of the
// head storage that the key-value store uses.  Values are real anyenc values;
// writes made inside a WriteTx are staged and applied on Commit, dropped on
// Rollback (the documented transaction contract).  A fault index makes the
// k-th mutating call (upsert / head update / commit) fail.
package verifkv

import (
	"context"
	"errors"

	anystore "github.com/anyproto/any-store"
	"github.com/anyproto/any-store/anyenc"

	"github.com/anyproto/any-sync/commonspace/headsync/headstorage"
)

var ErrFault = errors.New("verif: injected storage fault")

type txKey struct{}

type World struct {
	Docs    map[string]*anyenc.Value
	Order   []string
	Heads   map[string][]string
	Calls   int
	FailAt  int // -1 never
	Faulted bool
}

func NewWorld() *World {
	return &World{Docs: map[string]*anyenc.Value{}, Heads: map[string][]string{}, FailAt: -1}
}

func (w *World) tick() error {
	k := w.Calls
	w.Calls++
	if k == w.FailAt {
		w.Faulted = true
		return ErrFault
	}
	return nil
}

// copy of a key-value document (schema of innerstorage.KeyValue.AnyEnc): the arena of the
// original is reset by the caller right after the write
func copyDoc(d *anyenc.Value) *anyenc.Value {
	a := &anyenc.Arena{}
	o := a.NewObject()
	o.Set("id", a.NewString(d.GetString("id")))
	o.Set("k", a.NewString(d.GetString("k")))
	o.Set("r", a.NewString(d.GetString("r")))
	v := a.NewObject()
	src := d.GetObject("v")
	v.Set("v", a.NewBinary(append([]byte{}, src.Get("v").GetBytes()...)))
	v.Set("p", a.NewBinary(append([]byte{}, src.Get("p").GetBytes()...)))
	v.Set("i", a.NewBinary(append([]byte{}, src.Get("i").GetBytes()...)))
	o.Set("v", v)
	o.Set("t", a.NewNumberFloat64(d.GetFloat64("t")))
	o.Set("i", a.NewString(d.GetString("i")))
	o.Set("p", a.NewString(d.GetString("p")))
	return o
}

type Tx struct {
	anystore.WriteTx
	w      *World
	ctx    context.Context
	staged []*anyenc.Value
	heads  map[string][]string
	done   bool
}

func (t *Tx) Context() context.Context { return t.ctx }
func (t *Tx) Done() bool               { return t.done }
func (t *Tx) SetModified()             {}
func (t *Tx) Commit() error {
	t.done = true
	if err := t.w.tick(); err != nil {
		return err
	}
	for _, d := range t.staged {
		t.w.put(d)
	}
	for k, h := range t.heads {
		t.w.Heads[k] = h
	}
	return nil
}
func (t *Tx) Rollback() error { t.done = true; return nil }

func (w *World) put(d *anyenc.Value) {
	id := d.GetString("id")
	if _, ok := w.Docs[id]; !ok {
		w.Order = append(w.Order, id)
	}
	w.Docs[id] = d
}

func (w *World) newTx(ctx context.Context) *Tx {
	t := &Tx{w: w, heads: map[string][]string{}}
	t.ctx = context.WithValue(ctx, txKey{}, t)
	return t
}

type Doc struct{ v *anyenc.Value }

func (d Doc) Value() *anyenc.Value { return d.v }

type Coll struct {
	anystore.Collection
	W *World
}

func (c *Coll) Name() string { return "kv" }
func (c *Coll) find(ctx context.Context, id any) (anystore.Doc, error) {
	key, _ := id.(string)
	if t, ok := ctx.Value(txKey{}).(*Tx); ok {
		for i := len(t.staged) - 1; i >= 0; i-- {
			if t.staged[i].GetString("id") == key {
				return Doc{t.staged[i]}, nil
			}
		}
	}
	d, ok := c.W.Docs[key]
	if !ok {
		return nil, anystore.ErrDocNotFound
	}
	return Doc{d}, nil
}
func (c *Coll) FindId(ctx context.Context, id any) (anystore.Doc, error) { return c.find(ctx, id) }
func (c *Coll) FindIdWithParser(ctx context.Context, p *anyenc.Parser, id any) (anystore.Doc, error) {
	return c.find(ctx, id)
}
func (c *Coll) UpsertOne(ctx context.Context, doc *anyenc.Value) error {
	if err := c.W.tick(); err != nil {
		return err
	}
	cp := copyDoc(doc)
	if t, ok := ctx.Value(txKey{}).(*Tx); ok {
		t.staged = append(t.staged, cp)
		return nil
	}
	c.W.put(cp)
	return nil
}
func (c *Coll) WriteTx(ctx context.Context) (anystore.WriteTx, error) { return c.W.newTx(ctx), nil }
func (c *Coll) Close() error                                          { return nil }
func (c *Coll) Find(filter any) anystore.Query {
	if filter != nil {
		panic("verifkv: filtered queries are not modelled")
	}
	return &Query{w: c.W}
}

type Query struct {
	anystore.Query
	w *World
}

func (q *Query) Sort(sort ...any) anystore.Query { return q }
func (q *Query) Iter(ctx context.Context) (anystore.Iterator, error) {
	it := &Iter{}
	for _, id := range q.w.Order {
		it.docs = append(it.docs, q.w.Docs[id])
	}
	return it, nil
}

type Iter struct {
	docs []*anyenc.Value
	pos  int
}

func (i *Iter) Next() bool                 { i.pos++; return i.pos <= len(i.docs) }
func (i *Iter) Doc() (anystore.Doc, error) { return Doc{i.docs[i.pos-1]}, nil }
func (i *Iter) Err() error                 { return nil }
func (i *Iter) Close() error               { return nil }

type DB struct {
	anystore.DB
	W *World
}

func (d *DB) Collection(ctx context.Context, name string) (anystore.Collection, error) {
	return &Coll{W: d.W}, nil
}
func (d *DB) WriteTx(ctx context.Context) (anystore.WriteTx, error) { return d.W.newTx(ctx), nil }

// head storage: only UpdateEntry is used by the key-value store
type HeadStorage struct {
	headstorage.HeadStorage
	W *World
}

func (h *HeadStorage) UpdateEntry(ctx context.Context, u headstorage.HeadsUpdate) error {
	if err := h.W.tick(); err != nil {
		return err
	}
	if t, ok := ctx.Value(txKey{}).(*Tx); ok {
		t.heads[u.Id] = u.Heads
		return nil
	}
	h.W.Heads[u.Id] = u.Heads
	return nil
}
