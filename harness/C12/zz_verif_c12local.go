//go:build verif

package keyvaluestorage

import (
	"context"
	"errors"

	libcrypto "github.com/libp2p/go-libp2p/core/crypto"

	"github.com/anyproto/any-sync/commonspace/object/accountdata"
	"github.com/anyproto/any-sync/commonspace/object/acl/list"
	"github.com/anyproto/any-sync/internal/verifkv"
	rt "github.com/anyproto/any-sync/internal/verifrt"
	"github.com/anyproto/any-sync/util/crypto"
)

// The local write path (Storage.Set): the account's own device writes a value.

type vC12Priv struct{ id string }

func (k *vC12Priv) Equals(o crypto.Key) bool           { return false }
func (k *vC12Priv) Raw() ([]byte, error)               { return []byte(k.id), nil }
func (k *vC12Priv) Decrypt(m []byte) ([]byte, error)   { return m, nil }
func (k *vC12Priv) Sign(d []byte) ([]byte, error)      { return []byte("S(" + k.id + ")" + string(d)), nil }
func (k *vC12Priv) GetPublic() crypto.PubKey           { return &vC12Pub{id: k.id} }
func (k *vC12Priv) Marshall() ([]byte, error)          { return []byte(k.id), nil }
func (k *vC12Priv) LibP2P() (libcrypto.PrivKey, error) { return nil, errors.New("n/a") }

type vC12Sym struct{}

func (vC12Sym) Equals(o crypto.Key) bool                        { return false }
func (vC12Sym) Raw() ([]byte, error)                            { return []byte("sym"), nil }
func (vC12Sym) Decrypt(m []byte) ([]byte, error)                { return m[1:], nil }
func (vC12Sym) DecryptReuse(dst, m []byte) ([]byte, error)      { return m[1:], nil }
func (vC12Sym) Encrypt(m []byte) ([]byte, error)                { return append([]byte{'E'}, m...), nil }
func (vC12Sym) Marshall() ([]byte, error)                       { return []byte("sym"), nil }

// VerifC12LocalSet: a local Set stores (and advertises) a value exactly when the account may write;
// otherwise it reports insufficient permissions and stores nothing.
func VerifC12LocalSet() {
	vC12Install()
	perm := []list.AclPermissions{list.AclPermissionsWriter, list.AclPermissionsReader, list.AclPermissionsNone, list.AclPermissionsAdmin, list.AclPermissionsOwner, list.AclPermissionsGuest}[rt.Choose(6)]
	me := &vC12Pub{id: "me"}
	acl := list.VerifNewAcl([]string{"acl0"}, []list.VerifPerm{{Key: me, Since: []int{0}, Perms: []list.AclPermissions{perm}}})
	acl.SetIdentity(me)
	w := verifkv.NewWorld()
	s := vC12Store(w, acl)
	s.keys = &accountdata.AccountKeys{PeerId: "dev1", PeerKey: &vC12Priv{id: "dev1"}, SignKey: &vC12Priv{id: "me"}}
	s.currentReadKey = vC12Sym{}
	err := s.Set(context.Background(), "k", []byte("v"))
	stored := len(w.Docs) > 0
	rt.Assert(stored == perm.CanWrite(), "local-set-stores-exactly-when-the-account-may-write")
	rt.Assert((err == nil) == perm.CanWrite(), "local-set-reports-a-refusal")
	rt.Assert(len(s.inner.Diff().Elements()) == len(w.Docs), "index-advertises-what-is-stored")
	if stored {
		rt.Reach("stored")
	} else {
		rt.Reach("refused")
	}
}
