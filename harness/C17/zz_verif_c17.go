//go:build verif

package pubsub

import (
	"github.com/anyproto/any-sync/commonspace/pubsub/pubsubproto"
	rt "github.com/anyproto/any-sync/internal/verifrt"
)

// vC17Str: symbolic string of length 0..max over the alphabet {a,b,/,*,>}.
func vC17Str(max int) string {
	s := rt.String(rt.Choose(max + 1))
	for i := 0; i < len(s); i++ {
		c := s[i]
		rt.Assume(rt.AnyOf(c == 'a', c == 'b', c == '/', c == '*', c == '>'))
	}
	return s
}

// reference split on '/'
func vC17Split(s string) []string {
	var out []string
	start := 0
	for i := 0; i < len(s); i++ {
		if s[i] == '/' {
			out = append(out, s[start:i])
			start = i + 1
		}
	}
	return append(out, s[start:])
}

func vC17HasWild(s string) bool {
	for i := 0; i < len(s); i++ {
		if s[i] == '*' || s[i] == '>' {
			return true
		}
	}
	return false
}

func vC17RefValidTopic(s string) bool {
	if len(s) == 0 {
		return false
	}
	for _, seg := range vC17Split(s) {
		if seg == "" || vC17HasWild(seg) {
			return false
		}
	}
	return true
}

func vC17RefValidPattern(s string) bool {
	if len(s) == 0 {
		return false
	}
	segs := vC17Split(s)
	for i, seg := range segs {
		if seg == "" {
			return false
		}
		if seg == "*" {
			continue
		}
		if seg == ">" {
			if i != len(segs)-1 {
				return false
			}
			continue
		}
		if vC17HasWild(seg) {
			return false
		}
	}
	return true
}

// reference matcher: literal equal, '*' exactly one segment, trailing '>' one or more
func vC17RefMatch(pattern, topic string) bool {
	ps, ts := vC17Split(pattern), vC17Split(topic)
	for i, p := range ps {
		if p == ">" {
			return i == len(ps)-1 && len(ts) > i
		}
		if i >= len(ts) {
			return false
		}
		if p == "*" {
			continue
		}
		if p != ts[i] {
			return false
		}
	}
	return len(ps) == len(ts)
}

func vC17Count(l []string, s string) int {
	n := 0
	for _, e := range l {
		if e == s {
			n++
		}
	}
	return n
}

// VerifC17Validate: validators accept exactly the canonical strings; TopicOwner rule.
func VerifC17Validate() {
	max := rt.Param("len", 5)
	s := vC17Str(max)
	rt.Assert((ValidateTopic(s) == nil) == vC17RefValidTopic(s), "validate-topic-exact")
	rt.Assert((ValidatePattern(s) == nil) == vC17RefValidPattern(s), "validate-pattern-exact")
	// owner: last segment iff first segment is "acc" and there are >= 2 segments
	t := "acc" + vC17Str(max-1)
	if ValidateTopic(t) == nil {
		segs := vC17Split(t)
		exp := ""
		if len(segs) >= 2 && segs[0] == accNamespace {
			exp = segs[len(segs)-1]
		}
		rt.Assert(TopicOwner(t) == exp, "topic-owner-is-last-segment-of-acc")
		rt.Reach("owner-checked")
	}
	rt.Assert(TopicOwner(s) == "" || (len(s) >= 4 && s[:4] == "acc/"), "no-owner-outside-acc")
	rt.Reach("validated")
}

// VerifC17Match: trie.Match returns exactly the registered patterns the
// reference matcher accepts, each once.
func VerifC17Match() {
	np := rt.Param("np", 2)
	max := rt.Param("len", 5)
	tr := newPatternTrie()
	pats := make([]string, np)
	for k := 0; k < np; k++ {
		pats[k] = vC17Str(max)
		rt.Assume(ValidatePattern(pats[k]) == nil)
		tr.Add(pats[k])
	}
	topic := vC17Str(max)
	rt.Assume(ValidateTopic(topic) == nil)
	res := tr.Match(topic, nil)
	distinctMatching := 0
	for k := 0; k < np; k++ {
		m := vC17RefMatch(pats[k], topic)
		exp := 0
		if m {
			exp = 1
		}
		rt.Assert(vC17Count(res, pats[k]) == exp, "match-iff-reference-matches-once")
		first := true
		for j := 0; j < k; j++ {
			if pats[j] == pats[k] {
				first = false
			}
		}
		if m && first {
			distinctMatching++
		}
	}
	rt.Assert(len(res) == distinctMatching, "match-nothing-else")
	if distinctMatching > 0 {
		rt.Reach("some-match")
	}
	rt.Reach("matched")
}

// VerifC17Refcount: Add/Remove sequences keep Len() and the trie shape exact.
func VerifC17Refcount() {
	k := rt.Param("k", 4)
	pool := []string{"a/b", "a/*", "a/>", "a", "*/b", ">"}
	p := []string{pool[rt.Choose(len(pool))], pool[rt.Choose(len(pool))]}
	rt.Assume(p[0] != p[1])
	tr := newPatternTrie()
	cnt := []int{0, 0}
	for step := 0; step < k; step++ {
		i := rt.Choose(2)
		if rt.Choose(2) == 0 {
			isNew := tr.Add(p[i])
			rt.Assert(isNew == (cnt[i] == 0), "add-reports-first-reference")
			cnt[i]++
		} else {
			gone := tr.Remove(p[i])
			rt.Assert(gone == (cnt[i] == 1), "remove-reports-last-reference")
			if cnt[i] > 0 {
				cnt[i]--
			}
		}
		live := 0
		for j := 0; j < 2; j++ {
			if cnt[j] > 0 {
				live++
			}
		}
		rt.Assert(tr.Len() == live, "len-is-live-patterns")
		for _, topic := range []string{"a/b", "a", "b/b", "a/b/a"} {
			res := tr.Match(topic, nil)
			for j := 0; j < 2; j++ {
				exp := 0
				if cnt[j] > 0 && vC17RefMatch(p[j], topic) {
					exp = 1
				}
				rt.Assert(vC17Count(res, p[j]) == exp, "match-tracks-refcounts")
			}
		}
		if live == 0 {
			rt.Assert(tr.root.empty(), "empty-trie-when-no-references")
		}
	}
	rt.Reach("refcounted")
}

// VerifC17Dedup: seen(id) is true iff id is among the last `size` distinct recorded ids.
func VerifC17Dedup() {
	size := rt.Param("size", 2)
	calls := rt.Param("calls", 4)
	d := newMsgIdDedup(size)
	// ids differ in one symbolic byte (from a pool of 3 distinct values) - the rest is fixed
	pool := rt.Atoms(3, 1)
	var recent []int // indexes of recorded ids, oldest first
	for c := 0; c < calls; c++ {
		i := rt.Choose(3)
		id := make([]byte, msgIdLen)
		id[3] = pool[i][0]
		exp := false
		for _, r := range recent {
			if r == i {
				exp = true
			}
		}
		got := d.seen(id)
		rt.Assert(got == exp, "seen-iff-in-window")
		if !exp {
			recent = append(recent, i)
			if len(recent) > size {
				recent = recent[1:]
			}
		}
	}
	rt.Assert(!d.seen(make([]byte, msgIdLen-1)), "wrong-length-never-seen")
	rt.Reach("dedup")
}

// VerifC17SignDomain: publishSignData is injective in its fields.
func VerifC17SignDomain() {
	mk := func() *pubsubproto.Publish {
		return &pubsubproto.Publish{
			SpaceId:        rt.String(rt.Choose(3)),
			Topic:          rt.String(rt.Choose(3)),
			MsgId:          rt.Bytes(rt.Choose(3)),
			KeyId:          rt.String(rt.Choose(3)),
			TimestampMilli: rt.I64(),
			Payload:        rt.Bytes(rt.Choose(3)),
		}
	}
	a, b := mk(), mk()
	da, db := publishSignData(a), publishSignData(b)
	if string(da) == string(db) {
		rt.Assert(a.SpaceId == b.SpaceId, "sign-binds-space")
		rt.Assert(a.Topic == b.Topic, "sign-binds-topic")
		rt.Assert(string(a.MsgId) == string(b.MsgId), "sign-binds-msgid")
		rt.Assert(a.KeyId == b.KeyId, "sign-binds-keyid")
		rt.Assert(a.TimestampMilli == b.TimestampMilli, "sign-binds-timestamp")
		rt.Assert(string(a.Payload) == string(b.Payload), "sign-binds-payload")
		rt.Reach("equal-encodings")
	}
	rt.Reach("signed")
}
