//go:build verif

package list

import (
	"context"
	"sort"

	"github.com/anyproto/any-sync/commonspace/headsync/headstorage"
	"github.com/anyproto/any-sync/consensus/consensusproto"
	"github.com/anyproto/any-sync/internal/verifstore"
	rt "github.com/anyproto/any-sync/internal/verifrt"
)

// The real ACL storage (storage.go) and the real head storage run over the any-store model of
// internal/verifstore; every storage call is a possible fault and a possible crash point.

type vC10aEnv struct {
	w  *verifstore.World
	db *verifstore.DB
	hs headstorage.HeadStorage
}

func vC10aEnvOn(w *verifstore.World) *vC10aEnv {
	db := &verifstore.DB{W: w}
	hs, err := headstorage.New(context.Background(), db)
	rt.Assert(err == nil, "headstorage-opens")
	return &vC10aEnv{w: w, db: db, hs: hs}
}

func vC10aDump(w *verifstore.World, aclId string) string {
	env := vC10aEnvOn(w)
	ids := append([]string{}, w.Ids(aclId)...)
	sort.Strings(ids)
	out := "records:"
	for _, id := range ids {
		d := w.Doc(aclId, id)
		out += id + "<" + d.GetString(prevIdKey) + ">o=" + string(rune('0'+d.GetInt(orderKey))) + ";"
	}
	out += "|head:"
	if e, err := env.hs.GetEntry(context.Background(), aclId); err == nil {
		for _, h := range e.Heads {
			out += h + ","
		}
	} else {
		out += "-"
	}
	return out
}

// the durable state is a valid ACL log: a chain from the root, orders 1..n, the recorded head is the last record,
// and the storage reopens with that head and serves the chain in order
func vC10aValid(w *verifstore.World, aclId, tag string) {
	ctx := context.Background()
	env := vC10aEnvOn(w)
	ids := w.Ids(aclId)
	if len(ids) == 0 {
		_, err := env.hs.GetEntry(ctx, aclId)
		rt.Assert(err != nil, tag+":no-head-without-records")
		return
	}
	last, lastOrder := "", 0
	for _, id := range ids {
		d := w.Doc(aclId, id)
		o := d.GetInt(orderKey)
		if o > lastOrder {
			last, lastOrder = id, o
		}
		if p := d.GetString(prevIdKey); p != "" {
			pd := w.Doc(aclId, p)
			rt.Assert(pd != nil, tag+":previous-record-is-stored")
			if pd != nil {
				rt.Assert(pd.GetInt(orderKey) == o-1, tag+":stored-order-follows-the-chain")
			}
		} else {
			rt.Assert(id == aclId && o == 1, tag+":only-the-root-has-no-predecessor")
		}
	}
	rt.Assert(lastOrder == len(ids), tag+":orders-are-1-to-n")
	st, err := NewStorage(ctx, aclId, env.hs, env.db)
	rt.Assert(err == nil, tag+":acl-storage-reopens")
	if err != nil {
		return
	}
	head, err := st.Head(ctx)
	rt.Assert(err == nil && head == last, tag+":acl-head-is-the-last-stored-record")
	n := 0
	err = st.GetAfterOrder(ctx, 1, func(ctx context.Context, r StorageRecord) (bool, error) {
		n++
		rt.Assert(r.Order == n, tag+":records-are-served-in-order")
		return true, nil
	})
	rt.Assert(err == nil && n == len(ids), tag+":all-records-are-served")
}

func vC10aRec(id, prev string, order int) StorageRecord {
	return StorageRecord{RawRecord: []byte{byte(order)}, PrevId: prev, Id: id, Order: order, ChangeSize: 1}
}

// VerifC10Acl: creating and extending the ACL storage is all-or-nothing under a fault or a crash at any storage call.
func VerifC10Acl() {
	ctx := context.Background()
	root := &consensusproto.RawRecordWithId{Id: "acl", Payload: []byte{1}}
	type scenario struct {
		prep func(env *vC10aEnv) Storage
		run  func(env *vC10aEnv, st Storage) error
	}
	create := func(env *vC10aEnv) Storage {
		st, err := CreateStorage(ctx, root, env.hs, env.db)
		rt.Assert(err == nil, "setup-create")
		return st
	}
	scs := []scenario{
		{ // 0: create
			prep: func(env *vC10aEnv) Storage { return nil },
			run:  func(env *vC10aEnv, st Storage) error { _, err := CreateStorage(ctx, root, env.hs, env.db); return err },
		},
		{ // 1: one record
			prep: create,
			run:  func(env *vC10aEnv, st Storage) error { return st.AddAll(ctx, []StorageRecord{vC10aRec("r2", "acl", 2)}) },
		},
		{ // 2: a batch of two records
			prep: create,
			run: func(env *vC10aEnv, st Storage) error {
				return st.AddAll(ctx, []StorageRecord{vC10aRec("r2", "acl", 2), vC10aRec("r3", "r2", 3)})
			},
		},
		{ // 3: extending a longer log
			prep: func(env *vC10aEnv) Storage {
				st := create(env)
				rt.Assert(st.AddAll(ctx, []StorageRecord{vC10aRec("r2", "acl", 2)}) == nil, "setup-add")
				return st
			},
			run: func(env *vC10aEnv, st Storage) error { return st.AddAll(ctx, []StorageRecord{vC10aRec("r3", "r2", 3)}) },
		},
	}
	sc := scs[rt.Choose(len(scs))]

	ref := vC10aEnvOn(verifstore.NewWorld())
	refSt := sc.prep(ref)
	before := vC10aDump(ref.w, "acl")
	rt.Assert(sc.run(ref, refSt) == nil, "reference-run-succeeds")
	after := vC10aDump(ref.w, "acl")
	vC10aValid(ref.w, "acl", "after")

	env := vC10aEnvOn(verifstore.NewWorld())
	st := sc.prep(env)
	rt.Assert(vC10aDump(env.w, "acl") == before, "setup-is-deterministic")
	vC10aValid(env.w, "acl", "before")
	env.w.Calls = 0
	k := rt.IntRange(0, 6)
	if rt.Bool() {
		env.w.FailAt = k
		err := sc.run(env, st)
		faulted := env.w.Faulted
		env.w.FailAt = -1
		if !faulted {
			rt.Assert(err == nil, "no-fault-no-error")
			rt.Assert(vC10aDump(env.w, "acl") == after, "fault-free-run-reaches-the-after-state")
			rt.Reach("no-fault")
			return
		}
		rt.Reach("fault")
		rt.Assert(err != nil, "fault-is-reported")
		rt.Assert(vC10aDump(env.w, "acl") == before, "failed-operation-leaves-the-state-before")
		vC10aValid(env.w, "acl", "after-fault")
		if st != nil {
			var err2 error
			st, err2 = NewStorage(ctx, "acl", env.hs, env.db)
			rt.Assert(err2 == nil, "acl-reopens-after-fault")
		}
		rt.Assert(sc.run(env, st) == nil, "retry-after-fault-succeeds")
		rt.Assert(vC10aDump(env.w, "acl") == after, "retry-reaches-the-after-state")
		return
	}
	env.w.CrashAt = k
	err := sc.run(env, st)
	rt.Assert(err == nil, "run-with-crash-probe-succeeds")
	if env.w.Image == nil {
		rt.Reach("no-crash")
		return
	}
	rt.Reach("crash")
	img := vC10aDump(env.w.Image, "acl")
	rt.Assert(rt.AnyOf(img == before, img == after), "crash-image-is-the-state-before-or-after")
	vC10aValid(env.w.Image, "acl", "crash-image")
}
