//go:build verif

package objecttree

import (
	"context"

	rt "github.com/anyproto/any-sync/internal/verifrt"
)

// Injected storage errors: every storage call an operation makes can fail
// (symbolic fault index).  Afterwards the live object must agree with what a
// fresh object built from the storage reports, and repeating the same input
// without a fault must succeed and reach the fault-free post-state.

type vC10World struct {
	b   *vBuilder
	a   *vReplica // replica under test
	src *vReplica // peer producing remote changes
	ctx context.Context
}

func vC10Add(r *vReplica, ctx context.Context, snapshot bool) error {
	_, err := r.ot.AddContent(ctx, SignableChangeContent{Data: []byte("d"), Key: &vTreeKey{id: "w"}, IsSnapshot: snapshot, Timestamp: 1, DataType: "t"})
	return err
}

func vC10Transfer(src, dst *vReplica, ctx context.Context) error {
	path, err := dst.ot.SnapshotPath()
	if err != nil {
		return err
	}
	loader, err := src.ot.ChangesAfterCommonSnapshotLoader(path, dst.ot.Heads())
	if err != nil {
		return err
	}
	batch, err := loader.NextBatch(1 << 20)
	if err != nil {
		return err
	}
	if len(batch.Batch) == 0 {
		return nil
	}
	_, err = dst.ot.AddRawChanges(ctx, RawChangesPayload{NewHeads: batch.Heads, RawChanges: batch.Batch, SnapshotPath: batch.SnapshotPath})
	return err
}

func vC10Consistent(w *vC10World, tag string) {
	r := w.a
	// durable state: heads name stored changes, parents / snapshot bases stored, order respects causality
	for _, h := range r.store.heads {
		_, ok := r.store.changes[h]
		rt.Assert(ok, tag+"-stored-heads-name-stored-changes")
	}
	for _, sc := range r.store.changes {
		for _, p := range sc.PrevIds {
			pc, ok := r.store.changes[p]
			rt.Assert(ok, tag+"-stored-parents-present")
			if ok {
				rt.Assert(pc.OrderId < sc.OrderId, tag+"-stored-order-respects-causality")
			}
		}
		if sc.SnapshotId != "" {
			_, ok := r.store.changes[sc.SnapshotId]
			rt.Assert(ok, tag+"-stored-snapshot-base-present")
		}
	}
	_, ok := r.store.changes[r.store.common]
	rt.Assert(ok, tag+"-stored-common-snapshot-present")
	// reopening yields a valid object with those heads, and the live object agrees with it
	re, err := vBuildObjectTree(r.store.clone(), w.b, r.acl)
	rt.Assert(err == nil, tag+"-reopen-succeeds")
	if err != nil {
		return
	}
	rt.Assert(vSameSet(re.Heads(), r.store.heads), tag+"-reopened-heads-are-stored-heads")
	rt.Assert(vSameSet(r.ot.Heads(), r.store.heads), tag+"-live-heads-agree-with-storage")
	for id := range r.ot.tree.attached {
		_, ok := r.store.changes[id]
		rt.Assert(ok, tag+"-live-holds-only-stored-changes")
	}
}

// VerifC10TreeFaults
func VerifC10TreeFaults() {
	pre := rt.Param("pre", 2)
	maxCalls := rt.Param("calls", 8)
	b := newVBuilder()
	ids := rt.Atoms(pre+5, 2)
	b.nextIds = ids[1:]
	ctx := context.Background()
	a, err := vNewReplica(ids[0], b, "w")
	rt.Assert(err == nil, "open")
	src, err := vNewReplica(ids[0], b, "w")
	rt.Assert(err == nil, "open")
	w := &vC10World{b: b, a: a, src: src, ctx: ctx}
	// prior history on the replica under test (shared with the peer)
	for i := 0; i < pre; i++ {
		snap := rt.Choose(2) == 1
		rt.Assert(vC10Add(a, ctx, snap) == nil, "setup-add")
	}
	rt.Assert(vC10Transfer(a, src, ctx) == nil, "setup-transfer")
	op := rt.Choose(6) // 4,5: local add / snapshot add refused by the caller's change validator
	switch op {
	case 2: // remote add: the peer is one plain change ahead
		rt.Assert(vC10Add(src, ctx, false) == nil, "setup-peer-add")
	case 3: // remote add that needs the storage: the peer made a snapshot and a change, we diverged
		rt.Assert(vC10Add(src, ctx, true) == nil, "setup-peer-snapshot")
		rt.Assert(vC10Add(src, ctx, false) == nil, "setup-peer-add")
		rt.Assert(vC10Add(a, ctx, true) == nil, "setup-own-snapshot")
	}
	vC10Consistent(w, "before")

	run := func() error {
		switch op {
		case 0:
			return vC10Add(a, ctx, false)
		case 1:
			return vC10Add(a, ctx, true)
		case 4, 5:
			_, err := a.ot.AddContentWithValidator(ctx, SignableChangeContent{Data: []byte("d"), Key: &vTreeKey{id: "w"}, IsSnapshot: op == 5, Timestamp: 1, DataType: "t"},
				func(change StorageChange) error { return errVStoreFault })
			rt.Assert(err != nil, "validator-refusal-is-reported")
			return nil
		default:
			return vC10Transfer(src, a, ctx)
		}
	}
	fault := rt.Choose(maxCalls + 1) // maxCalls = no fault
	a.store.calls = 0
	a.store.failAt = -1
	if fault < maxCalls {
		a.store.failAt = fault
	}
	preStored := len(a.store.changes)
	err = run()
	faulted := a.store.faulted
	a.store.failAt = -1
	a.store.faulted = false
	if !faulted {
		rt.Assert(err == nil, "no-fault-no-error")
		rt.Reach("fault-free")
	} else {
		rt.Reach("faulted")
		if err != nil {
			rt.Assert(len(a.store.changes) == preStored, "failed-operation-stores-nothing")
			rt.Reach("faulted-with-error")
		}
	}
	vC10Consistent(w, "after")
	if faulted && err != nil {
		// the same input is accepted again, and ends where a fault-free run ends
		err2 := run()
		rt.Assert(err2 == nil, "retry-after-fault-succeeds")
		vC10Consistent(w, "after-retry")
		if op >= 2 {
			rt.Assert(len(a.store.changes) >= len(src.store.changes) || op == 3, "retry-stores-remote-changes")
			for id := range src.store.changes {
				_, ok := a.store.changes[id]
				rt.Assert(ok, "retry-stores-remote-changes")
			}
		} else {
			rt.Assert(len(a.store.changes) == preStored+1, "retry-stores-the-new-change")
		}
	}
	rt.Reach("done")
}

// VerifC10TreeDelete: deleting a tree whose storage refuses the delete reports the error, leaves the live
// tree usable and agreeing with storage, and the same Delete succeeds when tried again.
func VerifC10TreeDelete() {
	b := newVBuilder()
	ids := rt.Atoms(4, 2)
	b.nextIds = ids[1:]
	ctx := context.Background()
	a, err := vNewReplica(ids[0], b, "w")
	rt.Assert(err == nil, "open")
	rt.Assert(vC10Add(a, ctx, false) == nil, "setup-add")
	stored := len(a.store.changes)
	a.store.calls = 0
	a.store.failAt = -1
	if rt.Bool() {
		a.store.failAt = 0
	}
	err = a.ot.Delete()
	faulted := a.store.faulted
	a.store.failAt = -1
	a.store.faulted = false
	if !faulted {
		rt.Assert(err == nil && len(a.store.changes) == 0, "delete-removes-the-data")
		rt.Reach("deleted")
		return
	}
	rt.Reach("faulted")
	rt.Assert(err != nil, "fault-is-reported")
	rt.Assert(len(a.store.changes) == stored, "failed-delete-leaves-storage")
	// the live tree agrees with storage: it is not deleted, so it still answers
	_, herr := a.ot.SnapshotPath()
	rt.Assert(herr != ErrDeleted, "live-tree-not-marked-deleted-while-storage-holds-it")
	// the same input again
	rt.Assert(a.ot.Delete() == nil, "retry-after-fault-succeeds")
	rt.Assert(len(a.store.changes) == 0, "retry-removes-the-data")
}
