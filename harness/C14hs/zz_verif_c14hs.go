//go:build verif

package handshake

import (
	"errors"
	"io"

	rt "github.com/anyproto/any-sync/internal/verifrt"
	"github.com/anyproto/any-sync/net/secureservice/handshake/handshakeproto"
)

// scripted connection: the peer is arbitrary.  Inbound bytes are whatever the
// harness queued; reads past the queue see EOF (peer closed); writes succeed
// or fail at a chosen call.
type vC14Conn struct {
	in       []byte
	out      []byte
	closed   bool
	writes   int
	failWrite int
	maxRead  int
}

func (c *vC14Conn) Read(p []byte) (int, error) {
	if len(c.in) == 0 {
		return 0, io.EOF
	}
	n := copy(p, c.in)
	c.in = c.in[n:]
	if len(p) > c.maxRead {
		c.maxRead = len(p)
	}
	return n, nil
}
func (c *vC14Conn) Write(p []byte) (int, error) {
	k := c.writes
	c.writes++
	if k == c.failWrite {
		return 0, errors.New("verif: write failed")
	}
	c.out = append(c.out, p...)
	return len(p), nil
}
func (c *vC14Conn) Close() error { c.closed = true; return nil }

// checker with an arbitrary (symbolic) verdict; records what it was asked
type vC14Checker struct {
	verdict  bool
	asked    int
	lastCred handshakeproto.Credentials
	lastPeer string
}

func (c *vC14Checker) MakeCredentials(remotePeerId string) *handshakeproto.Credentials {
	return &handshakeproto.Credentials{Type: handshakeproto.CredentialsType_SignedPeerIds, Payload: []byte("p"), Version: 7, ClientVersion: "v"}
}
func (c *vC14Checker) CheckCredential(remotePeerId string, cred *handshakeproto.Credentials) (Result, error) {
	c.asked++
	c.lastPeer = remotePeerId
	c.lastCred = handshakeproto.Credentials{Type: cred.Type, Payload: append([]byte{}, cred.Payload...), Version: cred.Version, ClientVersion: cred.ClientVersion}
	if !c.verdict {
		return Result{}, ErrInvalidCredentials
	}
	return Result{Identity: []byte("id"), ProtoVersion: cred.Version, ClientVersion: cred.ClientVersion}, nil
}

type vC14Frame struct {
	kind   int // 0 cred, 1 ack, 2 garbage type
	ackErr handshakeproto.Error
	valid  bool // well-formed frame of its kind (true) or truncated / oversized
	truncated bool // the stream ends inside this frame
	fuzzed bool // one body byte replaced by an arbitrary value: may or may not still parse
}

// vC14QueueFrame appends one inbound frame chosen by the solver / Choose
func vC14QueueFrame(c *vC14Conn) vC14Frame {
	var f vC14Frame
	f.kind = rt.Choose(3)
	var body []byte
	tp := byte(0)
	switch f.kind {
	case 0:
		tp = msgTypeCred
		cred := &handshakeproto.Credentials{Type: handshakeproto.CredentialsType(rt.Choose(2)), Payload: rt.Bytes(rt.Choose(2)), Version: uint32(rt.Choose(3))}
		body, _ = cred.MarshalVT()
	case 1:
		tp = msgTypeAck
		f.ackErr = handshakeproto.Error(rt.Choose(3)) // Null, Unexpected, InvalidCredentials
		body, _ = (&handshakeproto.Ack{Error: f.ackErr}).MarshalVT()
	case 2:
		tp = rt.U8()
		rt.Assume(rt.AllOf(tp != msgTypeCred, tp != msgTypeAck))
		body = rt.Bytes(1)
	}
	size := uint32(len(body))
	f.valid = true
	switch rt.Choose(4) {
	case 1: // truncated body
		if len(body) > 0 {
			body = body[:len(body)-1]
			f.valid = false
			f.truncated = true
		}
	case 2: // size field beyond the limit
		size = rt.U32()
		rt.Assume(size > sizeLimit)
		f.valid = false
	case 3: // corrupted body byte
		if len(body) > 0 {
			body[0] = rt.U8()
			f.fuzzed = true
		}
	}
	hdr := []byte{tp, byte(size), byte(size >> 8), byte(size >> 16), byte(size >> 24)}
	c.in = append(c.in, hdr...)
	c.in = append(c.in, body...)
	return f
}

// vC14CountNullAcks parses the frames a side wrote and counts acks carrying Error_Null
func vC14CountNullAcks(out []byte) int {
	n := 0
	for len(out) >= headerSize {
		tp := out[0]
		size := int(out[1]) | int(out[2])<<8 | int(out[3])<<16 | int(out[4])<<24
		if len(out) < headerSize+size {
			break
		}
		body := out[headerSize : headerSize+size]
		if tp == msgTypeAck {
			ack := &handshakeproto.Ack{}
			if ack.UnmarshalVT(body) == nil && ack.Error == handshakeproto.Error_Null {
				n++
			}
		}
		out = out[headerSize+size:]
	}
	return n
}

// VerifC14OneSide: against an arbitrary peer a side reports success only if the
// peer's credential frame passed the checker and the final ack was Null.
func VerifC14OneSide() {
	incoming := rt.Param("incoming", 0) == 1
	nFrames := rt.Param("frames", 2)
	c := &vC14Conn{failWrite: -1}
	if rt.Choose(2) == 1 {
		c.failWrite = rt.Choose(3)
	}
	chk := &vC14Checker{verdict: rt.Bool()}
	var frames []vC14Frame
	n := rt.Choose(nFrames + 1)
	for i := 0; i < n; i++ {
		f := vC14QueueFrame(c)
		frames = append(frames, f)
		if f.truncated {
			break // the peer closed inside the frame: nothing follows
		}
	}
	h := newHandshake()
	var res Result
	var err error
	if incoming {
		res, err = incomingHandshake(h, c, "remote", chk)
	} else {
		res, err = outgoingHandshake(h, c, "remote", chk)
	}
	rt.Assert(c.maxRead <= sizeLimit, "never-reads-more-than-the-size-limit")
	if err != nil {
		// same verdict on both ends: a failing side never tells the peer "all good".  The accepting
		// side writes its Null ack only as its very last step; the dialling side writes exactly one
		// (after accepting the peer's credential) and answers any later failure with an error ack.
		nullAcks := vC14CountNullAcks(c.out)
		if incoming {
			rt.Assert(nullAcks == 0, "failing-side-sends-no-success-ack")
		} else {
			rt.Assert(nullAcks <= 1, "failing-side-sends-no-success-ack")
		}
		rt.Reach("failed")
		return
	}
	rt.Reach("succeeded")
	rt.Assert(len(frames) >= 2, "success-needs-credential-and-ack-frames")
	if len(frames) < 2 {
		return
	}
	if frames[0].fuzzed || frames[1].fuzzed {
		// a fuzzed frame that still parses is a different, well-formed frame: only the checker verdict is asserted
		rt.Assert(chk.asked == 1 && chk.verdict, "peer-credential-passed-the-checker")
		rt.Reach("succeeded-with-fuzzed-frame")
		return
	}
	rt.Assert(frames[0].kind == 0 && frames[0].valid, "first-inbound-frame-is-a-wellformed-credential")
	rt.Assert(chk.asked == 1 && chk.verdict, "peer-credential-passed-the-checker")
	rt.Assert(chk.lastPeer == "remote", "checked-against-this-connections-peer")
	rt.Assert(frames[1].kind == 1 && frames[1].valid && frames[1].ackErr == handshakeproto.Error_Null, "final-ack-is-null")
	rt.Assert(string(res.Identity) == "id", "identity-is-the-checkers")
	rt.Assert(c.failWrite < 0 || c.failWrite >= c.writes, "no-success-after-failed-write")
}

// VerifC14Pool: a pooled handshake object carries nothing from the previous
// connection's remote credentials into the next check.
func VerifC14Pool() {
	chk := &vC14Checker{verdict: true}
	// first connection: a peer with arbitrary credentials
	c1 := &vC14Conn{failWrite: -1}
	first := &handshakeproto.Credentials{Type: handshakeproto.CredentialsType(rt.Choose(2)), Payload: rt.Bytes(rt.Choose(3)), Version: []uint32{0, 5, 300}[rt.Choose(3)], ClientVersion: rt.String(rt.Choose(3))}
	body, _ := first.MarshalVT()
	c1.in = append([]byte{msgTypeCred, byte(len(body)), 0, 0, 0}, body...)
	h := newHandshake()
	_, _ = incomingHandshake(h, c1, "remote1", chk)
	// second connection served by the same pooled object
	h2 := newHandshake()
	rt.Assert(h2 == h, "pool-reuses-the-object")
	c2 := &vC14Conn{failWrite: -1}
	second := &handshakeproto.Credentials{Type: handshakeproto.CredentialsType(rt.Choose(2)), Payload: rt.Bytes(rt.Choose(2)), Version: []uint32{0, 5, 300}[rt.Choose(3)], ClientVersion: rt.String(rt.Choose(2))}
	body2, _ := second.MarshalVT()
	c2.in = append([]byte{msgTypeCred, byte(len(body2)), 0, 0, 0}, body2...)
	chk.asked = 0
	_, _ = incomingHandshake(h2, c2, "remote2", chk)
	rt.Assert(chk.asked == 1, "second-credential-checked")
	rt.Assert(chk.lastCred.Version == second.Version, "checked-version-is-the-second-peers")
	rt.Assert(chk.lastCred.Type == second.Type, "checked-type-is-the-second-peers")
	rt.Assert(string(chk.lastCred.Payload) == string(second.Payload), "checked-payload-is-the-second-peers")
	rt.Assert(chk.lastCred.ClientVersion == second.ClientVersion, "checked-client-version-is-the-second-peers")
	rt.Reach("pooled")
}
