//go:build verif

package pubsub

import (
	"context"
	"errors"
	"time"

	"github.com/cheggaaa/mb/v3"
	libcrypto "github.com/libp2p/go-libp2p/core/crypto"

	"github.com/anyproto/any-sync/commonspace/pubsub/pubsubproto"
	rt "github.com/anyproto/any-sync/internal/verifrt"
	"github.com/anyproto/any-sync/util/crypto"
)

// The client receive path: frames arrive from a relay or LAN peer that is not
// trusted; a frame reaches the handlers exactly when it passes every filter and
// its msgId was not delivered before (within the ring).

// vC17rPub: a signature is the byte 1 followed by the signer's id and the signed
// data; anything else does not verify.  Only the holder of the key can produce it.
type vC17rPub struct{ id string }

func (k *vC17rPub) Equals(o crypto.Key) bool {
	p, ok := o.(*vC17rPub)
	return ok && p.id == k.id
}
func (k *vC17rPub) Raw() ([]byte, error)             { return []byte(k.id), nil }
func (k *vC17rPub) Encrypt(m []byte) ([]byte, error) { return m, nil }
func (k *vC17rPub) Verify(d []byte, s []byte) (bool, error) {
	if len(s) == 0 || s[0] != 1 {
		return false, nil
	}
	return string(s[1:]) == k.id+string(d), nil
}
func (k *vC17rPub) Marshall() ([]byte, error)         { return []byte(k.id), nil }
func (k *vC17rPub) Storage() []byte                   { return []byte(k.id) }
func (k *vC17rPub) Account() string                   { return k.id }
func (k *vC17rPub) Network() string                   { return k.id }
func (k *vC17rPub) PeerId() string                    { return k.id }
func (k *vC17rPub) LibP2P() (libcrypto.PubKey, error) { return nil, errors.New("n/a") }

type vC17rMembers struct{}

func (vC17rMembers) CheckMember(ctx context.Context, spaceId string, identity crypto.PubKey) error {
	if identity.Account() == "m1" {
		return nil
	}
	return errors.New("not a member")
}

const vC17rSpace = "bafyspace1.a"

// VerifC17Receive: k frames with arbitrary msgId, claimed identity, topic, timestamp and signature.
func VerifC17Receive() {
	k := rt.Param("frames", 3)
	ring := rt.Param("ring", 2)
	rt.Replace("github.com/anyproto/any-sync/util/crypto.UnmarshalEd25519PublicKeyProto", func(b []byte) (crypto.PubKey, error) {
		if len(b) == 0 {
			return nil, errors.New("verif: empty key")
		}
		return &vC17rPub{id: string(b)}, nil
	})
	s := &service{deps: Deps{Membership: vC17rMembers{}}}
	s.cfg = s.deps.Config.withDefaults()
	s.localTrie = make(map[string]*patternTrie)
	s.localSubs = make(map[string]map[string][]localSub)
	s.localTopic = make(map[string]int)
	s.dedup = newMsgIdDedup(ring)
	s.dispatch = mb.New[dispatchItem](64)
	s.ctx = context.Background()
	h := func(spaceId, topic string, identity crypto.PubKey, payload []byte) {}
	for _, p := range []string{"chat", "acc/>"} {
		_, err := s.Subscribe(vC17rSpace, p, h)
		rt.Assert(err == nil, "subscribed")
	}
	skew := s.cfg.MaxTimestampSkew.Milliseconds()
	topics := []string{"chat", "zzz", "acc/n/m1", "acc/n/m2"}
	var refRing []uint8 // msgIds delivered, oldest first, at most `ring`
	for f := 0; f < k; f++ {
		// every field stays symbolic, so a path forks only where the code under test branches on it
		idb := rt.U8()
		rt.Assume(idb < 3)
		msgId := make([]byte, msgIdLen)
		msgId[0] = idb
		ti := rt.Choose(len(topics))
		who := rt.U8() // claimed identity: member m1 or outsider x1 ...
		rt.Assume(rt.AnyOf(who == 'm', who == 'x'))
		ident := []byte{who, '1'}
		noIdent := rt.Bool() // ... or none at all
		if noIdent {
			ident = nil
		}
		now := time.Now().UnixMilli()
		// timestamp: absent (0), current, or outside the skew window on either side
		absent := rt.Bool()
		off := rt.I64()
		rt.Assume(rt.AnyOf(off == 0, off == skew+100000, off == -skew-100000))
		ts := int64(rt.IteInt(absent, 0, int(now-off)))
		p := &pubsubproto.Publish{SpaceId: vC17rSpace, Topic: topics[ti], MsgId: msgId, Identity: ident, TimestampMilli: ts, Payload: []byte("p")}
		// the signature: genuine for exactly these fields, genuine for another msgId (a spliced frame), or junk
		flag := rt.U8()
		splice := rt.U8()
		rt.Assume(rt.AllOf(flag < 2, splice < 2))
		q := *p
		q.MsgId = make([]byte, msgIdLen)
		q.MsgId[0] = idb + splice
		p.Signature = append([]byte{flag}, append([]byte(string(ident)), publishSignData(&q)...)...)

		before := s.dispatch.Len()
		s.receivePublish(context.Background(), p)
		got := s.dispatch.Len() - before

		inRing := false
		for _, r := range refRing {
			inRing = rt.AnyOf(inRing, r == idb)
		}
		pass := rt.AllOf(ti != 1, ti != 3, !noIdent, who == 'm', rt.AnyOf(absent, off == 0), flag == 1, splice == 0)
		exp := rt.IteInt(rt.AllOf(pass, !inRing), 1, 0)
		rt.Assert(got == exp, "handler-reached-exactly-when-genuine-fresh-and-new")
		if got == 1 {
			// (equal to the expectation, or the assertion above has already failed)
			refRing = append(refRing, idb)
			if len(refRing) > ring {
				refRing = refRing[1:]
			}
			rt.Reach("delivered")
		} else {
			rt.Reach("dropped")
		}
	}
}
