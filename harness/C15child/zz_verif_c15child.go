//go:build verif

package objecttree

import (
	"context"
	"sync/atomic"

	"github.com/anyproto/any-sync/commonspace/headsync/headstorage"
	"github.com/anyproto/any-sync/commonspace/object/tree/treechangeproto"
	"github.com/anyproto/any-sync/internal/verifstore"
	rt "github.com/anyproto/any-sync/internal/verifrt"
	"github.com/anyproto/any-sync/util/crypto"
)

// VerifC15LateChild: a tree created as the child of a parent whose deletion is recorded (queued, or already
// carried out) is queued for deletion at creation, is not listed among the live entries, and stays bound to
// its parent; this holds for eager and deferred creation and after reopening the head storage.
func VerifC15LateChild() {
	ctx := context.Background()
	b := newVBuilder()
	StorageChangeBuilder = func(keys crypto.KeyStorage, rootChange *treechangeproto.RawTreeChangeWithId) ChangeBuilder { return b }
	w := verifstore.NewWorld()
	db := &verifstore.DB{W: w}
	hs, err := headstorage.New(ctx, db)
	rt.Assert(err == nil, "headstorage-opens")

	parent := b.register(&Change{Id: "p", IsSnapshot: true}, 1)
	child := b.register(&Change{Id: "c", IsSnapshot: true, ParentId: "p"}, 1)
	pst, err := CreateStorage(ctx, parent, hs, db)
	rt.Assert(err == nil, "parent-created")

	// what has happened to the parent before the child arrives
	parentStatus := rt.Choose(4)
	switch parentStatus {
	case 1: // deletion recorded: queued
		q := headstorage.DeletedStatusQueued
		rt.Assert(hs.UpdateEntry(ctx, headstorage.HeadsUpdate{Id: "p", DeletedStatus: &q}) == nil, "queue-parent")
	case 2: // the deletion worker has run: data removed, marked deleted
		q := headstorage.DeletedStatusQueued
		rt.Assert(hs.UpdateEntry(ctx, headstorage.HeadsUpdate{Id: "p", DeletedStatus: &q}) == nil, "queue-parent")
		rt.Assert(pst.Delete(ctx) == nil, "delete-parent-data")
		d := headstorage.DeletedStatusDeleted
		rt.Assert(hs.UpdateEntry(ctx, headstorage.HeadsUpdate{Id: "p", DeletedStatus: &d}) == nil, "mark-parent-deleted")
	case 3: // the parent was never stored here, only its deletion mark (deletion learnt before the object)
		b.register(&Change{Id: "c", IsSnapshot: true, ParentId: "ghost"}, 1)
		d := headstorage.DeletedStatusDeleted
		rt.Assert(hs.UpdateEntry(ctx, headstorage.HeadsUpdate{Id: "ghost", DeletedStatus: &d}) == nil, "mark-ghost-deleted")
	}
	parentId := "p"
	if parentStatus == 3 {
		parentId = "ghost"
	}

	// the child arrives: eager creation, or deferred creation materialised by the first add
	if rt.Bool() {
		_, err = CreateStorage(ctx, child, hs, db)
	} else {
		var st Storage
		st, err = CreateStorageWithDeferredCreation(ctx, child, hs, db)
		if err == nil {
			st.(*storageDeferredCreation).SetAddSeq(&atomic.Uint64{})
			err = st.AddAll(ctx, []StorageChange{{RawChange: []byte{1}, PrevIds: []string{"c"}, Id: "c1", SnapshotCounter: 1, SnapshotId: "c", OrderId: "b1", ChangeSize: 1}}, []string{"c1"}, "c")
		}
	}
	rt.Assert(err == nil, "child-created")

	check := func(hs headstorage.HeadStorage, tag string) {
		e, err := hs.GetEntry(ctx, "c")
		rt.Assert(err == nil, tag+":child-has-a-head-entry")
		rt.Assert(e.ParentId == parentId, tag+":child-stays-bound-to-its-parent")
		live := false
		err = hs.IterateEntries(ctx, headstorage.IterOpts{}, func(entry headstorage.HeadsEntry) (bool, error) {
			if entry.Id == "c" {
				live = true
			}
			return true, nil
		})
		rt.Assert(err == nil, tag+":live-entries-iterate")
		kids, err := hs.GetEntriesByParentId(ctx, parentId)
		rt.Assert(err == nil && len(kids) == 1 && kids[0].Id == "c", tag+":child-is-found-through-its-parent")
		if parentStatus == 0 {
			rt.Assert(e.DeletedStatus == headstorage.DeletedStatusNotDeleted && live, tag+":child-of-a-live-parent-is-live")
			return
		}
		rt.Assert(e.DeletedStatus >= headstorage.DeletedStatusQueued, tag+":late-child-of-a-deleted-parent-is-queued-for-deletion")
		rt.Assert(!live, tag+":late-child-of-a-deleted-parent-is-not-listed-live")
	}
	check(hs, "live")
	// restart: a new head storage over the durable state
	hs2, err := headstorage.New(ctx, &verifstore.DB{W: w.Clone()})
	rt.Assert(err == nil, "headstorage-reopens")
	check(hs2, "reopened")
	rt.Reach("late-child")
}
