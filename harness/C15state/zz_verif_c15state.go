//go:build verif

package deletionstate

import (
	"context"
	"errors"

	"github.com/anyproto/any-sync/commonspace/headsync/headstorage"
	rt "github.com/anyproto/any-sync/internal/verifrt"
)

// in-memory head storage: entries with deletion status and parent binding; a
// symbolic fault index makes the k-th UpdateEntry fail.
type vC15Heads struct {
	entries map[string]*headstorage.HeadsEntry
	order   []string
	calls   int
	failAt  int
}

func (h *vC15Heads) AddObserver(o headstorage.Observer) {}
func (h *vC15Heads) IterateEntries(ctx context.Context, opts headstorage.IterOpts, iter headstorage.EntryIterator) error {
	for _, id := range h.order {
		e := h.entries[id]
		if opts.Deleted != (e.DeletedStatus >= headstorage.DeletedStatusQueued) {
			continue
		}
		cont, err := iter(*e)
		if err != nil || !cont {
			return err
		}
	}
	return nil
}
func (h *vC15Heads) GetEntry(ctx context.Context, id string) (headstorage.HeadsEntry, error) {
	e, ok := h.entries[id]
	if !ok {
		return headstorage.HeadsEntry{}, errors.New("verif: not found")
	}
	return *e, nil
}
func (h *vC15Heads) GetEntriesByParentId(ctx context.Context, parentId string) ([]headstorage.HeadsEntry, error) {
	var out []headstorage.HeadsEntry
	for _, id := range h.order {
		if e := h.entries[id]; e.ParentId == parentId {
			out = append(out, *e)
		}
	}
	return out, nil
}
func (h *vC15Heads) MaxLastAddSeq(ctx context.Context) (uint64, error) { return 0, nil }
func (h *vC15Heads) DeleteEntry(ctx context.Context, id string) error   { delete(h.entries, id); return nil }
func (h *vC15Heads) UpdateEntry(ctx context.Context, u headstorage.HeadsUpdate) error {
	k := h.calls
	h.calls++
	if k == h.failAt {
		return errors.New("verif: injected fault")
	}
	e, ok := h.entries[u.Id]
	if !ok {
		e = &headstorage.HeadsEntry{Id: u.Id}
		h.entries[u.Id] = e
		h.order = append(h.order, u.Id)
	}
	if u.DeletedStatus != nil {
		e.DeletedStatus = *u.DeletedStatus
	}
	if u.ParentId != nil {
		e.ParentId = *u.ParentId
	}
	return nil
}

func vC15NewState(h *vC15Heads) *objectDeletionState {
	st := New().(*objectDeletionState)
	st.storage = h
	return st
}

// VerifC15State: once an id is known as deleted it stays so, across operations and restarts.
func VerifC15State() {
	k := rt.Param("k", 3)
	ids := []string{"p", "c", "x"} // c is bound to p as a child
	h := &vC15Heads{entries: map[string]*headstorage.HeadsEntry{}, failAt: -1}
	for _, id := range ids {
		e := &headstorage.HeadsEntry{Id: id}
		if id == "c" {
			e.ParentId = "p"
		}
		h.entries[id] = e
		h.order = append(h.order, id)
	}
	if rt.Choose(2) == 1 {
		h.failAt = rt.Choose(k + 1)
	}
	st := vC15NewState(h)
	rt.Assert(st.Run(context.Background()) == nil, "run")
	everExists := map[string]bool{}
	for step := 0; step < k; step++ {
		id := ids[rt.Choose(3)]
		switch rt.Choose(3) {
		case 0:
			st.Add(map[string]struct{}{id: {}})
		case 1:
			if st.Exists(id) { // the deletion worker only deletes what was queued
				_ = st.Delete(id)
			}
		case 2: // restart: a fresh instance over the same storage
			st = vC15NewState(h)
			rt.Assert(st.Run(context.Background()) == nil, "run-after-restart")
			// a deleted parent's not-deleted children are queued on start-up
			if h.entries["p"].DeletedStatus == headstorage.DeletedStatusDeleted && h.failAt < 0 {
				rt.Assert(st.Exists("c"), "children-of-deleted-parent-are-queued-on-start")
			}
		}
		for _, x := range ids {
			if everExists[x] {
				rt.Assert(st.Exists(x) || h.failAt >= 0, "deletion-is-permanent")
				if h.failAt < 0 {
					rt.Assert(h.entries[x].DeletedStatus >= headstorage.DeletedStatusQueued, "deletion-is-durable")
				}
			}
			if st.Exists(x) {
				everExists[x] = true
			}
			// memory and storage agree when no write failed
			if h.failAt < 0 {
				rt.Assert(st.Exists(x) == (h.entries[x].DeletedStatus >= headstorage.DeletedStatusQueued), "state-agrees-with-storage")
			}
		}
		rt.Assert(len(st.Filter(ids)) == 3-len(func() []string {
			var l []string
			for _, x := range ids {
				if st.Exists(x) {
					l = append(l, x)
				}
			}
			return l
		}()), "filter-drops-exactly-the-deleted")
	}
	rt.Reach("state")
}
