//go:build verif

// Package verifstore: an in-memory model of the subset of any-store that the
// tree, ACL, head, state and key-value storages of any-sync use.  Documents are
// real anyenc values; filters are evaluated by the real query.Filter.Ok.
//
// Contract modelled (the documented any-store contract):
//   - writes made with a WriteTx context are staged and become durable on
//     Commit, vanish on Rollback; reads with that context see the staged writes;
//   - a write made without a transaction context is its own atomic transaction;
//   - Insert of an existing id fails with ErrDocExists and inserts nothing;
//   - FindId of a missing id fails with ErrDocNotFound.
//
// Faults: every storage call that can fail in the real engine (begin, insert,
// upsert, update, delete, commit) calls tick(); the FailAt-th such call returns
// ErrFault.  Crash images: when the CrashAt-th call is reached the durable
// (committed) state is copied to Image; a harness reopens objects over Image.
package verifstore

import (
	"context"
	"errors"

	anystore "github.com/anyproto/any-store"
	"github.com/anyproto/any-store/anyenc"
	"github.com/anyproto/any-store/query"
)

var ErrFault = errors.New("verif: injected storage fault")

type txKey struct{}

type collData struct {
	docs  map[string]*anyenc.Value
	order []string // insertion order of ids (deleted ids stay, looked up in docs)
}

type World struct {
	colls   map[string]*collData
	names   []string
	Calls   int
	FailAt  int // -1: never
	CrashAt int // -1: never
	Faulted bool
	Image   *World // durable state when the CrashAt-th call was reached
	Log     []string
}

func NewWorld() *World {
	return &World{colls: map[string]*collData{}, FailAt: -1, CrashAt: -1}
}

func (w *World) tick(what string) error {
	k := w.Calls
	w.Calls++
	w.Log = append(w.Log, what)
	if k == w.CrashAt && w.Image == nil {
		w.Image = w.Clone()
	}
	if k == w.FailAt {
		w.Faulted = true
		return ErrFault
	}
	return nil
}

// Clone copies the durable state (no fault / crash settings).
func (w *World) Clone() *World {
	n := NewWorld()
	for _, name := range w.names {
		c := w.colls[name]
		nc := n.coll(name)
		for _, id := range c.order {
			if d, ok := c.docs[id]; ok {
				nc.put(id, CloneValue(d))
			}
		}
	}
	return n
}

func (w *World) coll(name string) *collData {
	c, ok := w.colls[name]
	if !ok {
		c = &collData{docs: map[string]*anyenc.Value{}}
		w.colls[name] = c
		w.names = append(w.names, name)
	}
	return c
}

// Ids returns the ids stored in a collection, in insertion order.
func (w *World) Ids(name string) []string {
	c, ok := w.colls[name]
	if !ok {
		return nil
	}
	var out []string
	for _, id := range c.order {
		if _, ok := c.docs[id]; ok {
			out = append(out, id)
		}
	}
	return out
}

// Doc returns a stored document (nil if absent).
func (w *World) Doc(name, id string) *anyenc.Value {
	c, ok := w.colls[name]
	if !ok {
		return nil
	}
	return c.docs[id]
}

func (c *collData) put(id string, d *anyenc.Value) {
	if _, ok := c.docs[id]; !ok {
		seen := false
		for _, o := range c.order {
			if o == id {
				seen = true
			}
		}
		if !seen {
			c.order = append(c.order, id)
		}
	}
	c.docs[id] = d
}

// CloneValue deep-copies an anyenc value into a fresh arena.
func CloneValue(v *anyenc.Value) *anyenc.Value {
	return cloneInto(&anyenc.Arena{}, v)
}

func cloneInto(a *anyenc.Arena, v *anyenc.Value) *anyenc.Value {
	if v == nil {
		return nil
	}
	switch v.Type() {
	case anyenc.TypeObject:
		o := a.NewObject()
		obj, _ := v.Object()
		obj.Visit(func(k []byte, val *anyenc.Value) {
			o.Set(string(k), cloneInto(a, val))
		})
		return o
	case anyenc.TypeArray:
		arr := a.NewArray()
		items, _ := v.Array()
		for i, it := range items {
			arr.SetArrayItem(i, cloneInto(a, it))
		}
		return arr
	case anyenc.TypeString:
		b, _ := v.StringBytes()
		return a.NewString(string(b))
	case anyenc.TypeBinary:
		b, _ := v.Bytes()
		return a.NewBinary(append([]byte{}, b...))
	case anyenc.TypeNumber:
		f, _ := v.Float64()
		return a.NewNumberFloat64(f)
	case anyenc.TypeTrue:
		return a.NewTrue()
	case anyenc.TypeFalse:
		return a.NewFalse()
	}
	return a.NewNull()
}

// ---- transactions

type stagedOp struct {
	coll string
	id   string
	doc  *anyenc.Value // nil: delete
}

type Tx struct {
	anystore.WriteTx
	w      *World
	ctx    context.Context
	parent *Tx // non-nil: a savepoint inside parent (WriteTx called with a transaction context)
	ops    []stagedOp
	done   bool
}

func (t *Tx) Context() context.Context { return t.ctx }
func (t *Tx) Done() bool               { return t.done }
func (t *Tx) SetModified()             {}
func (t *Tx) Commit() error {
	if t.done {
		return errors.New("verif: transaction already finished")
	}
	t.done = true
	if t.parent != nil {
		// releasing a savepoint: the writes become part of the enclosing transaction
		if t.parent.done {
			return errors.New("verif: enclosing transaction already finished")
		}
		t.parent.ops = append(t.parent.ops, t.ops...)
		return nil
	}
	if err := t.w.tick("commit"); err != nil {
		return err
	}
	for _, op := range t.ops {
		c := t.w.coll(op.coll)
		if op.doc == nil {
			delete(c.docs, op.id)
		} else {
			c.put(op.id, op.doc)
		}
	}
	return nil
}
func (t *Tx) Rollback() error {
	t.done = true
	t.ops = nil
	return nil
}

func (w *World) newTx(ctx context.Context) (*Tx, error) {
	parent := txOf(ctx)
	if parent == nil {
		if err := w.tick("begin"); err != nil {
			return nil, err
		}
	}
	t := &Tx{w: w, parent: parent}
	t.ctx = context.WithValue(ctx, txKey{}, t)
	return t, nil
}

func txOf(ctx context.Context) *Tx {
	t, _ := ctx.Value(txKey{}).(*Tx)
	// a finished savepoint hands over to its enclosing transaction
	for t != nil && t.done {
		t = t.parent
	}
	return t
}

// lookup honours the writes staged in the context's transaction
func (w *World) lookup(ctx context.Context, coll, id string) (*anyenc.Value, bool) {
	for t := txOf(ctx); t != nil; t = t.parent {
		for i := len(t.ops) - 1; i >= 0; i-- {
			if t.ops[i].coll == coll && t.ops[i].id == id {
				return t.ops[i].doc, t.ops[i].doc != nil
			}
		}
	}
	c, ok := w.colls[coll]
	if !ok {
		return nil, false
	}
	d, ok := c.docs[id]
	return d, ok
}

func (w *World) write(ctx context.Context, coll, id string, doc *anyenc.Value) {
	if t := txOf(ctx); t != nil {
		t.ops = append(t.ops, stagedOp{coll: coll, id: id, doc: doc})
		return
	}
	c := w.coll(coll)
	if doc == nil {
		delete(c.docs, id)
	} else {
		c.put(id, doc)
	}
}

// visible ids of a collection under the context's transaction, in insertion order
func (w *World) visible(ctx context.Context, coll string) []string {
	var ids []string
	if c, ok := w.colls[coll]; ok {
		ids = append(ids, c.order...)
	}
	var chain []*Tx
	for t := txOf(ctx); t != nil; t = t.parent {
		chain = append([]*Tx{t}, chain...)
	}
	for _, t := range chain {
		for _, op := range t.ops {
			if op.coll != coll {
				continue
			}
			seen := false
			for _, id := range ids {
				if id == op.id {
					seen = true
				}
			}
			if !seen {
				ids = append(ids, op.id)
			}
		}
	}
	var out []string
	for _, id := range ids {
		if _, ok := w.lookup(ctx, coll, id); ok {
			out = append(out, id)
		}
	}
	return out
}

// ---- documents, collections

type Doc struct{ v *anyenc.Value }

func (d Doc) Value() *anyenc.Value { return d.v }

type Coll struct {
	anystore.Collection
	W    *World
	name string
}

func idString(id any) string {
	switch v := id.(type) {
	case string:
		return v
	case []byte:
		return string(v)
	}
	panic("verifstore: only string document ids are modelled")
}

func (c *Coll) Name() string { return c.name }

func (c *Coll) FindId(ctx context.Context, id any) (anystore.Doc, error) {
	d, ok := c.W.lookup(ctx, c.name, idString(id))
	if !ok {
		return nil, anystore.ErrDocNotFound
	}
	return Doc{CloneValue(d)}, nil
}

func (c *Coll) FindIdWithParser(ctx context.Context, p *anyenc.Parser, id any) (anystore.Doc, error) {
	return c.FindId(ctx, id)
}

func (c *Coll) Insert(ctx context.Context, docs ...*anyenc.Value) error {
	if err := c.W.tick("insert:" + c.name); err != nil {
		return err
	}
	for i, d := range docs {
		id := d.GetString("id")
		if _, ok := c.W.lookup(ctx, c.name, id); ok {
			return anystore.ErrDocExists
		}
		for j := 0; j < i; j++ {
			if docs[j].GetString("id") == id {
				return anystore.ErrDocExists
			}
		}
	}
	for _, d := range docs {
		c.W.write(ctx, c.name, d.GetString("id"), CloneValue(d))
	}
	return nil
}

func (c *Coll) UpsertOne(ctx context.Context, doc *anyenc.Value) error {
	if err := c.W.tick("upsert:" + c.name); err != nil {
		return err
	}
	c.W.write(ctx, c.name, doc.GetString("id"), CloneValue(doc))
	return nil
}

func (c *Coll) UpdateOne(ctx context.Context, doc *anyenc.Value) error {
	if err := c.W.tick("update:" + c.name); err != nil {
		return err
	}
	id := doc.GetString("id")
	if _, ok := c.W.lookup(ctx, c.name, id); !ok {
		return anystore.ErrDocNotFound
	}
	c.W.write(ctx, c.name, id, CloneValue(doc))
	return nil
}

func (c *Coll) modifyId(ctx context.Context, id any, mod query.Modifier, upsert bool) (res anystore.ModifyResult, err error) {
	if err = c.W.tick("modify:" + c.name); err != nil {
		return
	}
	key := idString(id)
	a := &anyenc.Arena{}
	cur, ok := c.W.lookup(ctx, c.name, key)
	var val *anyenc.Value
	if ok {
		val = cloneInto(a, cur)
	} else {
		if !upsert {
			return res, anystore.ErrDocNotFound
		}
		val = a.NewObject()
		val.Set("id", a.NewString(key))
	}
	newVal, modified, err := mod.Modify(a, val)
	if err != nil {
		return res, err
	}
	if !modified {
		if ok {
			res.Matched = 1
		}
		return res, nil
	}
	res.Modified = 1
	if ok {
		res.Matched = 1
	}
	c.W.write(ctx, c.name, key, CloneValue(newVal))
	return res, nil
}

func (c *Coll) UpsertId(ctx context.Context, id any, mod query.Modifier) (anystore.ModifyResult, error) {
	return c.modifyId(ctx, id, mod, true)
}

func (c *Coll) UpdateId(ctx context.Context, id any, mod query.Modifier) (anystore.ModifyResult, error) {
	return c.modifyId(ctx, id, mod, false)
}

func (c *Coll) DeleteId(ctx context.Context, id any) error {
	if err := c.W.tick("delete:" + c.name); err != nil {
		return err
	}
	key := idString(id)
	if _, ok := c.W.lookup(ctx, c.name, key); !ok {
		return anystore.ErrDocNotFound
	}
	c.W.write(ctx, c.name, key, nil)
	return nil
}

func (c *Coll) Count(ctx context.Context) (int, error) { return len(c.W.visible(ctx, c.name)), nil }
func (c *Coll) EnsureIndex(ctx context.Context, info ...anystore.IndexInfo) error { return nil }
func (c *Coll) CreateIndex(ctx context.Context, info ...anystore.IndexInfo) error { return nil }
func (c *Coll) Close() error                                                       { return nil }
func (c *Coll) WriteTx(ctx context.Context) (anystore.WriteTx, error)              { return c.W.newTx(ctx) }

func (c *Coll) Find(filter any) anystore.Query {
	q := &Query{c: c}
	if filter != nil {
		if _, isQuery := filter.(anystore.Query); isQuery {
			// any-store parses an unknown condition type through its JSON form; a Query object has no
			// exported fields, so the condition is empty: every document matches, in natural order
			// (observed on any-store v0.4.7 through the ACL storage's getWithQuery, see DESIGN.md)
			return q
		}
		f, ok := filter.(query.Filter)
		if !ok {
			panic("verifstore: only query.Filter conditions are modelled")
		}
		q.filter = f
	}
	return q
}

// ---- queries

type Query struct {
	anystore.Query
	c      *Coll
	filter query.Filter
	sort   []string
	limit  uint
}

func (q *Query) Sort(sort ...any) anystore.Query {
	for _, s := range sort {
		str, ok := s.(string)
		if !ok {
			panic("verifstore: only string sort keys are modelled")
		}
		q.sort = append(q.sort, str)
	}
	return q
}

func (q *Query) Limit(l uint) anystore.Query { q.limit = l; return q }

// less compares one field of two documents: absent < number < string (the any-store type order), then by value
func fieldLess(a, b *anyenc.Value, field string) (less, equal bool) {
	va, vb := a.Get(field), b.Get(field)
	rank := func(v *anyenc.Value) int {
		if v == nil {
			return 0
		}
		switch v.Type() {
		case anyenc.TypeNumber:
			return 2
		case anyenc.TypeString:
			return 3
		}
		return 1
	}
	ra, rb := rank(va), rank(vb)
	if ra != rb {
		return ra < rb, false
	}
	switch ra {
	case 2:
		fa, _ := va.Float64()
		fb, _ := vb.Float64()
		return fa < fb, fa == fb
	case 3:
		sa, _ := va.StringBytes()
		sb, _ := vb.StringBytes()
		return string(sa) < string(sb), string(sa) == string(sb)
	}
	return false, true
}

func (q *Query) matching(ctx context.Context) []*anyenc.Value {
	var docs []*anyenc.Value
	for _, id := range q.c.W.visible(ctx, q.c.name) {
		d, _ := q.c.W.lookup(ctx, q.c.name, id)
		if q.filter == nil || q.filter.Ok(d, nil) {
			docs = append(docs, d)
		}
	}
	// without a sort key: natural (insertion) order
	keys := q.sort
	before := func(a, b *anyenc.Value) bool {
		for _, k := range keys {
			desc := false
			if len(k) > 0 && k[0] == '-' {
				desc, k = true, k[1:]
			}
			less, eq := fieldLess(a, b, k)
			if eq {
				continue
			}
			if desc {
				return !less
			}
			return less
		}
		return false
	}
	// insertion sort (stable)
	for i := 1; i < len(docs); i++ {
		for j := i; j > 0 && before(docs[j], docs[j-1]); j-- {
			docs[j], docs[j-1] = docs[j-1], docs[j]
		}
	}
	if q.limit > 0 && uint(len(docs)) > q.limit {
		docs = docs[:q.limit]
	}
	return docs
}

func (q *Query) Iter(ctx context.Context) (anystore.Iterator, error) {
	it := &Iter{}
	for _, d := range q.matching(ctx) {
		it.docs = append(it.docs, CloneValue(d))
	}
	return it, nil
}

func (q *Query) Count(ctx context.Context) (int, error) { return len(q.matching(ctx)), nil }

func (q *Query) Delete(ctx context.Context) (res anystore.ModifyResult, err error) {
	if err = q.c.W.tick("delete-query:" + q.c.name); err != nil {
		return
	}
	for _, d := range q.matching(ctx) {
		q.c.W.write(ctx, q.c.name, d.GetString("id"), nil)
		res.Matched++
		res.Modified++
	}
	return
}

type Iter struct {
	docs []*anyenc.Value
	pos  int
}

func (i *Iter) Next() bool                 { i.pos++; return i.pos <= len(i.docs) }
func (i *Iter) Doc() (anystore.Doc, error) { return Doc{i.docs[i.pos-1]}, nil }
func (i *Iter) Err() error                 { return nil }
func (i *Iter) Close() error               { return nil }

// ---- database

type DB struct {
	anystore.DB
	W *World
}

func (d *DB) Collection(ctx context.Context, name string) (anystore.Collection, error) {
	d.W.coll(name)
	return &Coll{W: d.W, name: name}, nil
}

func (d *DB) CreateCollection(ctx context.Context, name string) (anystore.Collection, error) {
	return d.Collection(ctx, name)
}

func (d *DB) OpenCollection(ctx context.Context, name string) (anystore.Collection, error) {
	if _, ok := d.W.colls[name]; !ok {
		return nil, anystore.ErrCollectionNotFound
	}
	return &Coll{W: d.W, name: name}, nil
}

func (d *DB) WriteTx(ctx context.Context) (anystore.WriteTx, error) { return d.W.newTx(ctx) }
func (d *DB) Close() error                                          { return nil }
