//go:build verif

package spacestorage

import (
	"context"
	"errors"
	"sort"
	"strings"

	"github.com/anyproto/any-sync/commonspace/headsync/headstorage"
	"github.com/anyproto/any-sync/commonspace/object/tree/objecttree"
	"github.com/anyproto/any-sync/commonspace/object/tree/treechangeproto"
	"github.com/anyproto/any-sync/commonspace/spacesyncproto"
	"github.com/anyproto/any-sync/consensus/consensusproto"
	"github.com/anyproto/any-sync/internal/verifstore"
	rt "github.com/anyproto/any-sync/internal/verifrt"
	"github.com/anyproto/any-sync/util/crypto"
)

// change builder for the settings root: decoding and signatures are C02's subject
type vC10spBuilder struct{ objecttree.ChangeBuilder }

func (vC10spBuilder) Unmarshall(raw *treechangeproto.RawTreeChangeWithId, verify bool) (*objecttree.Change, error) {
	if len(raw.RawChange) == 0 {
		return nil, errors.New("verif: empty change")
	}
	return &objecttree.Change{Id: raw.Id, IsSnapshot: true}, nil
}

func vC10spDump(w *verifstore.World) string {
	out := ""
	for _, coll := range []string{"state", objecttree.CollName, headstorage.HeadsCollectionName, "acl"} {
		ids := append([]string{}, w.Ids(coll)...)
		sort.Strings(ids)
		out += coll + "=" + strings.Join(ids, ",") + ";"
	}
	return out
}

// VerifC10Space: creating a space storage is all-or-nothing under a fault or a crash at any storage call:
// afterwards the space either does not exist (and can be created) or opens with its state, ACL head and settings tree.
func VerifC10Space() {
	ctx := context.Background()
	objecttree.StorageChangeBuilder = func(keys crypto.KeyStorage, root *treechangeproto.RawTreeChangeWithId) objecttree.ChangeBuilder {
		return vC10spBuilder{}
	}
	payload := SpaceStorageCreatePayload{
		AclWithId:           &consensusproto.RawRecordWithId{Id: "acl", Payload: []byte{1}},
		SpaceHeaderWithId:   &spacesyncproto.RawSpaceHeaderWithId{Id: "space", RawHeader: []byte{2}},
		SpaceSettingsWithId: &treechangeproto.RawTreeChangeWithId{Id: "settings", RawChange: []byte{3}},
	}
	opens := func(w *verifstore.World, tag string) {
		s, err := New(ctx, "space", &verifstore.DB{W: w})
		rt.Assert(err == nil, tag+":space-opens")
		if err != nil {
			return
		}
		st, err := s.StateStorage().GetState(ctx)
		rt.Assert(err == nil && st.AclId == "acl" && st.SettingsId == "settings" && st.SpaceId == "space", tag+":state-names-acl-and-settings")
		as, err := s.AclStorage()
		rt.Assert(err == nil, tag+":acl-storage-present")
		head, err := as.Head(ctx)
		rt.Assert(err == nil && head == "acl", tag+":acl-head-is-the-root")
		ts, err := s.TreeStorage(ctx, "settings")
		rt.Assert(err == nil, tag+":settings-tree-opens")
		if err == nil {
			h, err := ts.Heads(ctx)
			rt.Assert(err == nil && len(h) == 1 && h[0] == "settings", tag+":settings-heads-are-the-root")
		}
	}
	absent := func(w *verifstore.World, tag string) {
		rt.Assert(len(w.Ids("state")) == 0 && len(w.Ids(objecttree.CollName)) == 0 && len(w.Ids(headstorage.HeadsCollectionName)) == 0 && len(w.Ids("acl")) == 0, tag+":nothing-of-the-space-is-stored")
	}

	ref := verifstore.NewWorld()
	_, err := Create(ctx, &verifstore.DB{W: ref}, payload)
	rt.Assert(err == nil, "reference-create-succeeds")
	after := vC10spDump(ref)
	opens(ref, "after")

	w := verifstore.NewWorld()
	k := rt.IntRange(0, 9)
	if rt.Bool() {
		w.FailAt = k
		_, err := Create(ctx, &verifstore.DB{W: w}, payload)
		faulted := w.Faulted
		w.FailAt = -1
		if !faulted {
			rt.Assert(err == nil && vC10spDump(w) == after, "fault-free-create-reaches-the-after-state")
			rt.Reach("no-fault")
			return
		}
		rt.Reach("fault")
		rt.Assert(err != nil, "fault-is-reported")
		absent(w, "after-fault")
		_, err = Create(ctx, &verifstore.DB{W: w}, payload)
		rt.Assert(err == nil, "retry-after-fault-succeeds")
		rt.Assert(vC10spDump(w) == after, "retry-reaches-the-after-state")
		opens(w, "after-retry")
		return
	}
	w.CrashAt = k
	_, err = Create(ctx, &verifstore.DB{W: w}, payload)
	rt.Assert(err == nil, "create-with-crash-probe-succeeds")
	if w.Image == nil {
		rt.Reach("no-crash")
		return
	}
	rt.Reach("crash")
	if vC10spDump(w.Image) == after {
		opens(w.Image, "crash-image")
	} else {
		absent(w.Image, "crash-image")
	}
	// creating the same space again is refused
	_, err = Create(ctx, &verifstore.DB{W: w}, payload)
	rt.Assert(errors.Is(err, ErrSpaceStorageExists), "second-create-is-refused")
	rt.Assert(vC10spDump(w) == after, "refused-create-changes-nothing")
}
