//go:build verif

package list

import (
	rt "github.com/anyproto/any-sync/internal/verifrt"
)

// VerifC03KeepIdentity: for every byte string of the given length, the memory-saving partial decoder of AclData
// either defers to the generated decoder or returns exactly what the generated decoder followed by the
// account-key filter returns; neither panics.
func VerifC03KeepIdentity() {
	n := rt.Param("len", 6)
	b := rt.Bytes(n)
	// shape 1 / 2: the bytes are the body of a read key change / an account remove, wrapped canonically in a
	// content value and an AclData, so that the fast path is entered and its inner decoders see arbitrary bytes
	switch rt.Param("shape", 0) {
	case 1:
		b = append([]byte{0x0a, byte(n + 2), 7<<3 | 2, byte(n)}, b...)
	case 2:
		b = append([]byte{0x0a, byte(n + 2), 6<<3 | 2, byte(n)}, b...)
	}
	isOurs := func(id []byte) bool { return len(id) == 1 && id[0] == 'o' }
	fast, ferr := keepIdentityFast(b, isOurs)
	full, err := fullDecodeFilter(b, isOurs)
	if ferr == nil {
		rt.Reach("fast-path")
		rt.Assert(err == nil, "fast-path-accepts-only-what-the-generated-decoder-accepts")
		if err == nil {
			fb, e1 := fast.MarshalVT()
			gb, e2 := full.MarshalVT()
			rt.Assert(e1 == nil && e2 == nil, "results-re-encode")
			rt.Assert(string(fb) == string(gb), "fast-path-result-equals-generated-decoder-plus-filter")
		}
	}
	got, gerr := unmarshalAclDataKeepIdentity(b, isOurs)
	rt.Assert((gerr == nil) == (err == nil), "partial-decoder-accepts-exactly-what-the-generated-decoder-accepts")
	if gerr == nil && err == nil {
		fb, _ := got.MarshalVT()
		gb, _ := full.MarshalVT()
		rt.Assert(string(fb) == string(gb), "partial-decoder-result-equals-generated-decoder-plus-filter")
	}
	rt.Reach("decoded")
}
