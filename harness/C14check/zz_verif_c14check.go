//go:build verif

package secureservice

import (
	"errors"

	libcrypto "github.com/libp2p/go-libp2p/core/crypto"

	"github.com/anyproto/any-sync/commonspace/object/accountdata"
	rt "github.com/anyproto/any-sync/internal/verifrt"
	"github.com/anyproto/any-sync/net/secureservice/handshake/handshakeproto"
	"github.com/anyproto/any-sync/util/crypto"
)

// symbolic crypto: a signature is valid iff it is exactly Sign's output for the data
type vC14Pub struct{ id string }

func (k *vC14Pub) Equals(o crypto.Key) bool {
	p, ok := o.(*vC14Pub)
	return ok && p.id == k.id
}
func (k *vC14Pub) Raw() ([]byte, error)             { return []byte(k.id), nil }
func (k *vC14Pub) Encrypt(m []byte) ([]byte, error) { return m, nil }
func (k *vC14Pub) Verify(d []byte, s []byte) (bool, error) {
	return string(s) == "S("+k.id+")"+string(d), nil
}
func (k *vC14Pub) Marshall() ([]byte, error)         { return []byte(k.id), nil }
func (k *vC14Pub) Storage() []byte                   { return []byte(k.id) }
func (k *vC14Pub) Account() string                   { return k.id }
func (k *vC14Pub) Network() string                   { return k.id }
func (k *vC14Pub) PeerId() string                    { return k.id }
func (k *vC14Pub) LibP2P() (libcrypto.PubKey, error) { return nil, errors.New("n/a") }

type vC14Priv struct{ id string }

func (k *vC14Priv) Equals(o crypto.Key) bool           { return false }
func (k *vC14Priv) Raw() ([]byte, error)               { return []byte(k.id), nil }
func (k *vC14Priv) Decrypt(m []byte) ([]byte, error)   { return m, nil }
func (k *vC14Priv) Sign(d []byte) ([]byte, error)      { return []byte("S(" + k.id + ")" + string(d)), nil }
func (k *vC14Priv) GetPublic() crypto.PubKey           { return &vC14Pub{id: k.id} }
func (k *vC14Priv) Marshall() ([]byte, error)          { return []byte(k.id), nil }
func (k *vC14Priv) LibP2P() (libcrypto.PrivKey, error) { return nil, errors.New("n/a") }

func vC14Install() {
	rt.Replace("github.com/anyproto/any-sync/util/crypto.UnmarshalEd25519PublicKeyProto", func(b []byte) (crypto.PubKey, error) {
		if len(b) == 0 {
			return nil, errors.New("verif: empty key")
		}
		return &vC14Pub{id: string(b)}, nil
	})
}

func vC14Versions() (uint32, []uint32) {
	own := uint32(rt.Choose(4))
	var compat []uint32
	for v := uint32(0); v < 4; v++ {
		if rt.Choose(2) == 1 {
			compat = append(compat, v)
		}
	}
	return own, compat
}

func vC14In(l []uint32, v uint32) bool {
	for _, e := range l {
		if e == v {
			return true
		}
	}
	return false
}

// VerifC14Check: an arbitrary credential passes the verifying checker only if
// its version is accepted and it proves an identity over (remote peer id, local peer id).
func VerifC14Check() {
	vC14Install()
	_, compat := vC14Versions()
	local := rt.String(2)
	remote := rt.String(2)
	acc := &accountdata.AccountKeys{PeerId: local, SignKey: &vC14Priv{id: "me"}}
	chk := newPeerSignVerifier(1, compat, "cv", acc)
	ident := []byte([]string{"alice", "bob"}[rt.Choose(2)])
	sign := rt.Bytes(rt.Choose(12))
	payload, _ := (&handshakeproto.PayloadSignedPeerIds{Identity: ident, Sign: sign}).MarshalVT()
	if rt.Choose(3) == 0 {
		payload = rt.Bytes(rt.Choose(3)) // garbage payload
	}
	cred := &handshakeproto.Credentials{Type: handshakeproto.CredentialsType(rt.Choose(2)), Payload: payload, Version: uint32(rt.Choose(5)), ClientVersion: "cv"}
	res, err := chk.CheckCredential(remote, cred)
	if err != nil {
		rt.Reach("rejected")
		return
	}
	rt.Reach("accepted")
	rt.Assert(vC14In(compat, cred.Version), "accepted-version-is-in-the-compatible-list")
	rt.Assert(cred.Type == handshakeproto.CredentialsType_SignedPeerIds, "verifying-mode-requires-signed-peer-ids")
	// the proven identity is the one returned, and the signature covers exactly remote||local
	proven := string(res.Identity)
	rt.Assert(proven == "alice" || proven == "bob" || len(proven) > 0, "identity-returned")
	ok, _ := (&vC14Pub{id: proven}).Verify([]byte(remote+local), sign)
	if string(payload) == string(func() []byte {
		b, _ := (&handshakeproto.PayloadSignedPeerIds{Identity: ident, Sign: sign}).MarshalVT()
		return b
	}()) {
		rt.Assert(proven == string(ident), "identity-is-the-one-in-the-credential")
		rt.Assert(ok, "signature-covers-remote-then-local-peer-id")
	}
	rt.Assert(res.ProtoVersion == cred.Version, "result-version-is-the-credentials")
}

// VerifC14Mutual: credentials made by A for B pass B's check and no check with other endpoints.
func VerifC14Mutual() {
	vC14Install()
	ownA, compatA := vC14Versions()
	ownB, compatB := vC14Versions()
	ids := rt.Atoms(3, 2) // equal-length peer ids (ed25519 peer ids all have the same length)
	a := newPeerSignVerifier(ownA, compatA, "cv", &accountdata.AccountKeys{PeerId: ids[0], SignKey: &vC14Priv{id: "alice"}})
	b := newPeerSignVerifier(ownB, compatB, "cv", &accountdata.AccountKeys{PeerId: ids[1], SignKey: &vC14Priv{id: "bob"}})
	credAB := a.MakeCredentials(ids[1])
	res, err := b.CheckCredential(ids[0], credAB)
	rt.Assert((err == nil) == vC14In(compatB, ownA), "honest-credential-accepted-iff-version-compatible")
	if err == nil {
		rt.Assert(string(res.Identity) == "alice", "attached-identity-is-the-signers")
		rt.Reach("accepted")
	}
	// replay on a connection with different endpoints: remote claims to be ids[2], or the verifier is someone else
	_, err2 := b.CheckCredential(ids[2], credAB)
	rt.Assert(err2 != nil, "credential-rejected-for-different-remote-endpoint")
	c := newPeerSignVerifier(ownB, compatB, "cv", &accountdata.AccountKeys{PeerId: ids[2], SignKey: &vC14Priv{id: "carol"}})
	_, err3 := c.CheckCredential(ids[0], credAB)
	rt.Assert(err3 != nil, "credential-rejected-by-different-verifier-endpoint")
	// non-verifying mode still gates on versions
	nv := newNoVerifyChecker(ownB, compatB, "cv")
	_, err4 := nv.CheckCredential(ids[0], credAB)
	rt.Assert((err4 == nil) == vC14In(compatB, ownA), "no-verify-mode-gates-on-version")
	rt.Reach("mutual")
}

// VerifC14Sequence: the identity attached to a connection stays the one its signature proved, whatever the same
// verifier checks afterwards (other accounts, rejected credentials): results of earlier checks are not rewritten.
func VerifC14Sequence() {
	vC14Install()
	ids := rt.Atoms(3, 2)
	node := newPeerSignVerifier(1, []uint32{1}, "cv", &accountdata.AccountKeys{PeerId: ids[0], SignKey: &vC14Priv{id: "node"}})
	alice := newPeerSignVerifier(1, []uint32{1}, "cv", &accountdata.AccountKeys{PeerId: ids[1], SignKey: &vC14Priv{id: "alice"}})
	bob := newPeerSignVerifier(1, []uint32{1}, "cv", &accountdata.AccountKeys{PeerId: ids[2], SignKey: &vC14Priv{id: "bobby"}})
	first, err := node.CheckCredential(ids[1], alice.MakeCredentials(ids[0]))
	rt.Assert(err == nil && string(first.Identity) == "alice", "first-connection-proves-alice")
	// later checks by the same verifier: another account (accepted), a credential for other endpoints (rejected)
	n := 1 + rt.Choose(2)
	for i := 0; i < n; i++ {
		if rt.Bool() {
			second, err := node.CheckCredential(ids[2], bob.MakeCredentials(ids[0]))
			rt.Assert(err == nil && string(second.Identity) == "bobby", "later-connection-proves-bob")
		} else {
			_, err := node.CheckCredential(ids[2], alice.MakeCredentials(ids[0]))
			rt.Assert(err != nil, "credential-for-other-endpoints-rejected")
		}
		rt.Assert(string(first.Identity) == "alice", "identity-of-an-earlier-connection-is-not-rewritten")
	}
	rt.Reach("sequence")
}
