//go:build verif

package secureservice

import (
	"github.com/anyproto/any-sync/accountservice"
	"github.com/anyproto/any-sync/app"
	"github.com/anyproto/any-sync/commonspace/object/accountdata"
	rt "github.com/anyproto/any-sync/internal/verifrt"
	"github.com/anyproto/any-sync/net/secureservice/handshake/handshakeproto"
	"github.com/anyproto/any-sync/util/crypto"
)

// The service as the application wires it: accepted versions come from the configuration component.

type vC14PeerKey struct{ vC14Priv }

func (k *vC14PeerKey) Raw() ([]byte, error) { return make([]byte, 64), nil }

type vC14Account struct{ keys *accountdata.AccountKeys }

func (a *vC14Account) Init(*app.App) error               { return nil }
func (a *vC14Account) Name() string                      { return accountservice.CName }
func (a *vC14Account) Account() *accountdata.AccountKeys { return a.keys }

type vC14Conf struct{ c Config }

func (c *vC14Conf) Init(*app.App) error      { return nil }
func (c *vC14Conf) Name() string             { return "config" }
func (c *vC14Conf) GetSecureService() Config { return c.c }

var _ crypto.PrivKey = (*vC14PeerKey)(nil)

// VerifC14Init: after Init with a configured list of accepted versions, both credential checkers accept a
// peer's version exactly when it is in the configured list.
func VerifC14Init() {
	vC14Install()
	own := uint32(13)
	var list []uint32
	for v := uint32(12); v <= 14; v++ {
		if v == own || rt.Bool() {
			list = append(list, v)
		}
	}
	a := new(app.App)
	a.Register(&vC14Account{keys: &accountdata.AccountKeys{PeerId: "me", SignKey: &vC14Priv{id: "me"}, PeerKey: &vC14PeerKey{vC14Priv{id: "me"}}}})
	a.Register(&vC14Conf{c: Config{CompatibleVersions: list}})
	s := &secureService{protoVersion: own}
	func() {
		// the node configuration component is deliberately absent: Init stops there (MustComponent panics),
		// after the part under test - the checkers - has been set up
		defer func() { _ = recover() }()
		_ = s.Init(a)
	}()
	if s.noVerifyChecker == nil || s.peerSignVerifier == nil {
		rt.Reach("no-checkers")
		return
	}
	peerVersion := uint32(12 + rt.Choose(3))
	cred := &handshakeproto.Credentials{Type: handshakeproto.CredentialsType_SkipVerify, Version: peerVersion, ClientVersion: "cv"}
	_, err := s.noVerifyChecker.CheckCredential("peer", cred)
	rt.Assert((err == nil) == vC14In(list, peerVersion), "configured-versions-gate-the-non-verifying-checker")
	remote := (&peerSignVerifier{protoVersion: peerVersion, account: &accountdata.AccountKeys{PeerId: "peer", SignKey: &vC14Priv{id: "alice"}}}).MakeCredentials("me")
	_, err = s.peerSignVerifier.CheckCredential("peer", remote)
	rt.Assert((err == nil) == vC14In(list, peerVersion), "configured-versions-gate-the-verifying-checker")
	rt.Reach("checked")
}
