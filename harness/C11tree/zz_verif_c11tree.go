//go:build verif

package objecttree

import (
	"context"

	"github.com/anyproto/any-sync/commonspace/object/tree/treechangeproto"
	rt "github.com/anyproto/any-sync/internal/verifrt"
)

// VerifC11TreeInput: structurally hostile change batches - dangling, duplicated, self- and mutually-referencing
// parents, unknown snapshot bases, repeated and re-sent changes, the missing parent arriving later - delivered to
// the real objectTree.AddRawChanges in one to three messages are accepted or refused with an error: no panic, no
// unbounded loop, and afterwards the tree is still a consistent DAG that reopens from storage.
func VerifC11TreeInput() {
	msgs := rt.Param("msgs", 2)
	ctx := context.Background()
	b := newVBuilder()
	r, err := vNewReplica("r", b, "w")
	rt.Assert(err == nil, "open")
	pick := func(opts ...[]string) []string { return opts[rt.Choose(len(opts))] }
	// three change ids besides the root; "z" is never delivered (a parent that stays unknown)
	weird := rt.Choose(4)   // which change carries an odd snapshot base: none, a -> unknown, b -> itself, c -> empty
	snapA := rt.Bool()      // a claims to be a snapshot
	mk := func(id string) *treechangeproto.RawTreeChangeWithId {
		var prev []string
		snap := "r"
		switch id {
		case "a":
			prev = pick([]string{"r"}, []string{"r", "r"}, []string{"z"}, []string{"a"}, []string{"b"})
			if weird == 1 {
				snap = "z"
			}
		case "b":
			prev = pick([]string{"a"}, []string{"a", "a"}, []string{"c"}, []string{"r", "a", "r"})
			if weird == 2 {
				snap = "b"
			}
		default: // "c"
			prev = pick([]string{"b"}, []string{"a", "b"}, []string{"z", "b"})
			if weird == 3 {
				snap = ""
			}
		}
		return b.register(&Change{Id: id, PreviousIds: prev, SnapshotId: snap, IsSnapshot: id == "a" && snapA, AclHeadId: "acl0", Identity: &vTreePub{id: "w"}}, 1)
	}
	raws := map[string]*treechangeproto.RawTreeChangeWithId{"a": mk("a"), "b": mk("b"), "c": mk("c")}
	orders := [][]string{{"a"}, {"b"}, {"a", "b"}, {"b", "a"}, {"c", "b"}, {"b", "c", "a"}, {"a", "a"}, {"r", "c", "a", "b", "c"}}
	for m := 0; m < msgs; m++ {
		ids := orders[rt.Choose(len(orders))]
		var batch []*treechangeproto.RawTreeChangeWithId
		for _, id := range ids {
			if id == "r" {
				batch = append(batch, b.raw("r"))
			} else {
				batch = append(batch, raws[id])
			}
		}
		heads := []string{ids[len(ids)-1]}
		_, err := r.ot.AddRawChanges(ctx, RawChangesPayload{NewHeads: heads, RawChanges: batch})
		if err != nil {
			rt.Reach("refused")
		} else {
			rt.Reach("accepted")
		}
		// whatever was said, the tree is a consistent DAG over stored changes
		seq := vSeqIds(r.ot.tree)
		for i, id := range seq {
			ch := r.ot.tree.attached[id]
			rt.Assert(ch != nil, "iterated-change-is-attached")
			if ch == nil {
				continue
			}
			if i == 0 {
				continue // the (possibly reduced) tree starts here: its parents are outside the in-memory tree
			}
			for _, p := range ch.PreviousIds {
				j := vIndexOf(seq, p)
				rt.Assert(j >= 0 && j < i, "parents-come-first")
			}
			has, _ := r.store.Has(ctx, id)
			rt.Assert(has, "attached-change-is-stored")
		}
		for _, h := range r.ot.Heads() {
			rt.Assert(vIndexOf(seq, h) >= 0, "heads-are-attached")
		}
		re, err := vBuildObjectTree(r.store.clone(), b, r.acl)
		rt.Assert(err == nil, "tree-reopens")
		if err == nil {
			rt.Assert(vSameSet(re.Heads(), r.ot.Heads()), "reopened-heads-equal-live-heads")
		}
	}
	rt.Reach("input")
}
