//go:build verif

package list

import (
	"errors"

	rt "github.com/anyproto/any-sync/internal/verifrt"
	"github.com/anyproto/any-sync/util/crypto"
)

// Symbolic crypto for the key-distribution code (Dolev-Yao style), installed over util/crypto:
//   - asymmetric keys are the vPub / vPriv fakes (a ciphertext "E(id)"+m opens only with the private key id);
//   - symmetric keys stay real *crypto.AESKey values (their proto encoding is the real one) but
//     Encrypt(k, m) = "A("+raw(k)+")"+m and Decrypt(k, c) succeeds only on exactly that prefix;
//   - fresh keys come from a counter: deterministic, pairwise distinct.
// A principal can therefore read a plaintext only if it holds the key it was encrypted to: that is the secrecy model.

var vCryptoSeq int

const vCryptoPkg = "github.com/anyproto/any-sync/util/crypto"

func vSymKey(n int) *crypto.AESKey {
	raw := make([]byte, crypto.KeyBytes)
	for i := range raw {
		raw[i] = '.'
	}
	raw[0] = 'K'
	raw[1] = byte('0' + n/10)
	raw[2] = byte('0' + n%10)
	k, err := crypto.UnmarshallAESKey(raw)
	if err != nil {
		panic(err)
	}
	return k
}

func vSymPrefix(k *crypto.AESKey) string {
	raw, _ := k.Raw()
	return "A(" + string(raw) + ")"
}

func vCryptoInstall() {
	vCryptoSeq = 0
	rt.Replace(vCryptoPkg+".UnmarshalEd25519PublicKeyProto", vPubFromProto)
	rt.Replace(vCryptoPkg+".UnmarshalEd25519PrivateKeyProto", func(b []byte) (crypto.PrivKey, error) {
		if len(b) <= 5 || string(b[:5]) != "priv:" {
			return nil, errors.New("verif: not a private key")
		}
		return &vPriv{id: string(b[5:])}, nil
	})
	rt.Replace(vCryptoPkg+".GenerateRandomEd25519KeyPair", func() (crypto.PrivKey, crypto.PubKey, error) {
		vCryptoSeq++
		id := "gen" + string(rune('0'+vCryptoSeq/10)) + string(rune('0'+vCryptoSeq%10))
		return &vPriv{id: id}, &vPub{id: id}, nil
	})
	rt.Replace(vCryptoPkg+".NewRandomAES", func() (*crypto.AESKey, error) {
		vCryptoSeq++
		return vSymKey(vCryptoSeq), nil
	})
	rt.Replace("(*"+vCryptoPkg+".AESKey).Encrypt", func(k *crypto.AESKey, msg []byte) ([]byte, error) {
		return append([]byte(vSymPrefix(k)), msg...), nil
	})
	dec := func(k *crypto.AESKey, msg []byte) ([]byte, error) {
		pre := vSymPrefix(k)
		if len(msg) < len(pre) || string(msg[:len(pre)]) != pre {
			return nil, errors.New("verif: cannot decrypt")
		}
		return append([]byte{}, msg[len(pre):]...), nil
	}
	rt.Replace("(*"+vCryptoPkg+".AESKey).Decrypt", dec)
	rt.Replace("(*"+vCryptoPkg+".AESKey).DecryptReuse", func(k *crypto.AESKey, dst, msg []byte) ([]byte, error) {
		return dec(k, msg)
	})
	// key derivation (SLIP-21 over HMAC-SHA512) by an injective relabelling of the seed: "K.." -> "T.."
	derive := func(seed []byte) (crypto.SymKey, error) {
		raw := make([]byte, crypto.KeyBytes)
		for i := range raw {
			raw[i] = '.'
		}
		copy(raw, seed)
		raw[0] = 'T'
		return crypto.UnmarshallAESKey(raw)
	}
	rt.Replace(vCryptoPkg+".DeriveSymmetricKey", func(seed []byte, path string) (crypto.SymKey, error) { return derive(seed) })
	rt.Replace("(*"+vCryptoPkg+".KeyDeriver).DeriveKey", func(d *crypto.KeyDeriver, seed []byte) (crypto.SymKey, error) { return derive(seed) })
}
