//go:build verif

package list

import (
	"errors"

	libp2pcrypto "github.com/libp2p/go-libp2p/core/crypto"

	"github.com/anyproto/any-sync/util/crypto"
)

// Symbolic-crypto fakes (Dolev-Yao style): a key is its id; a signature is
// valid iff it is the signer's output for exactly that data; ciphertexts are
// opaque wrappers that only the matching key id unwraps.

type vPub struct{ id string }

func (k *vPub) Equals(o crypto.Key) bool {
	if o == nil {
		// the real keys call a method of the argument (crypto.KeyEquals -> k2.Raw())
		panic("verif: Equals on a nil key")
	}
	p, ok := o.(*vPub)
	return ok && p != nil && p.id == k.id
}
func (k *vPub) Raw() ([]byte, error) { return []byte(k.id), nil }
func (k *vPub) Encrypt(msg []byte) ([]byte, error) {
	return append([]byte("E("+k.id+")"), msg...), nil
}
// a signature verifies iff it is exactly what the matching private key produces for the data
func (k *vPub) Verify(data []byte, sig []byte) (bool, error) {
	return string(sig) == "S("+k.id+")"+string(data), nil
}
func (k *vPub) Marshall() ([]byte, error)              { return []byte(k.id), nil }
func (k *vPub) Storage() []byte                        { return []byte(k.id) }
func (k *vPub) Account() string                        { return k.id }
func (k *vPub) Network() string                        { return k.id }
func (k *vPub) PeerId() string                         { return k.id }
func (k *vPub) LibP2P() (libp2pcrypto.PubKey, error)   { return nil, errors.New("verif: no libp2p key") }

type vPriv struct{ id string }

func (k *vPriv) Equals(o crypto.Key) bool {
	p, ok := o.(*vPriv)
	return ok && p != nil && p.id == k.id
}
func (k *vPriv) Raw() ([]byte, error) { return []byte("priv:" + k.id), nil }
func (k *vPriv) Decrypt(msg []byte) ([]byte, error) {
	pre := "E(" + k.id + ")"
	if len(msg) < len(pre) || string(msg[:len(pre)]) != pre {
		return nil, errors.New("verif: cannot decrypt")
	}
	return msg[len(pre):], nil
}
func (k *vPriv) Sign(data []byte) ([]byte, error) {
	return append([]byte("S("+k.id+")"), data...), nil
}
func (k *vPriv) GetPublic() crypto.PubKey              { return &vPub{id: k.id} }
func (k *vPriv) Marshall() ([]byte, error)             { return []byte("priv:" + k.id), nil }
func (k *vPriv) LibP2P() (libp2pcrypto.PrivKey, error) { return nil, errors.New("verif: no libp2p key") }

// vKS: key storage whose "proto" encoding of a key is the key id itself.
type vKS struct{}

func (vKS) PubKeyFromProto(b []byte) (crypto.PubKey, error) {
	return vPubFromProto(b)
}

// vPubFromProto: the "proto" encoding of a key is its id; like a protobuf message, a key also has
// non-canonical encodings (here: trailing '~' bytes) that decode to the same key and that Marshall never produces.
func vPubFromProto(b []byte) (crypto.PubKey, error) {
	for len(b) > 0 && b[len(b)-1] == '~' {
		b = b[:len(b)-1]
	}
	if len(b) == 0 {
		return nil, errors.New("verif: empty key")
	}
	return &vPub{id: string(b)}, nil
}
