//go:build verif

package list

import "github.com/anyproto/any-sync/util/crypto"

// exported handles on the fakes for harnesses living in other packages

func VerifPriv(id string) crypto.PrivKey { return &vPriv{id: id} }
func VerifPub(id string) crypto.PubKey   { return &vPub{id: id} }
func VerifCryptoInstall()                { vCryptoInstall() }

// VerifFreshKeys returns a new read key, a new metadata key and the raw bytes of the read key
func VerifFreshKeys() (crypto.SymKey, crypto.PrivKey, string) {
	vCryptoSeq++
	k := vSymKey(vCryptoSeq)
	raw, _ := k.Raw()
	return k, &vPriv{id: "mk" + string(rune('0'+vCryptoSeq/10)) + string(rune('0'+vCryptoSeq%10))}, string(raw)
}
