//go:build verif

package settingsstate

import (
	"github.com/anyproto/any-sync/commonspace/object/tree/objecttree"
	"github.com/anyproto/any-sync/commonspace/spacesyncproto"
	rt "github.com/anyproto/any-sync/internal/verifrt"
)

// a readable tree that iterates a harness-given linear log (the settings tree
// as the real objectTree would present it: root first, IterateFrom(id) starts at id inclusive)
type vC15Tree struct {
	objecttree.ReadableObjectTree
	log []*objecttree.Change
}

func (t *vC15Tree) Root() *objecttree.Change { return t.log[0] }
func (t *vC15Tree) IterateFrom(id string, convert objecttree.ChangeConvertFunc, iterate objecttree.ChangeIterateFunc) error {
	started := false
	for _, c := range t.log {
		if c.Id == id {
			started = true
		}
		if !started {
			continue
		}
		if c.Model == nil && len(c.PreviousIds) > 0 {
			m, err := convert(c, c.Data)
			if err != nil {
				return err
			}
			c.Model = m
		}
		if !iterate(c) {
			break
		}
	}
	return nil
}

func vC15Log(n int, objs []string) ([]*objecttree.Change, [][]int) {
	var log []*objecttree.Change
	var dels [][]int
	// root: plain root, or a snapshot root carrying already deleted ids
	root := &objecttree.Change{Id: "c0"}
	var rootDel []int
	if rt.Choose(2) == 1 {
		snap := &spacesyncproto.SpaceSettingsSnapshot{}
		for i := range objs {
			if rt.Choose(2) == 1 {
				snap.DeletedIds = append(snap.DeletedIds, objs[i])
				rootDel = append(rootDel, i)
			}
		}
		data, _ := (&spacesyncproto.SettingsData{Snapshot: snap}).MarshalVT()
		root.PreviousIds = []string{"older"}
		root.Data = data
	}
	log = append(log, root)
	dels = append(dels, rootDel)
	// The log is the linearisation of a DAG: a change is made on top of the previous one or, concurrently with
	// it, on top of the one before.  A change may also be a snapshot change: besides its own deletion it then
	// carries every deletion its author had seen, i.e. those of its ancestors - not those of a concurrent branch.
	cids := []string{"c0", "c1", "c2", "c3", "c4", "c5"}
	anc := make([][]bool, n+1)
	anc[0] = make([]bool, n+1)
	anc[0][0] = true
	for j := 1; j <= n; j++ {
		k := rt.Choose(len(objs))
		parent := j - 1
		if j >= 2 && rt.Choose(2) == 1 {
			parent = j - 2
		}
		anc[j] = make([]bool, n+1)
		copy(anc[j], anc[parent])
		anc[j][j] = true
		sd := &spacesyncproto.SettingsData{Content: []*spacesyncproto.SpaceSettingsContent{
			{Value: &spacesyncproto.SpaceSettingsContent_ObjectDelete{ObjectDelete: &spacesyncproto.ObjectDelete{Id: objs[k]}}}}}
		if rt.Param("snap", 0) == 1 && rt.Choose(2) == 1 {
			seen := map[int]bool{k: true}
			for a := 0; a < j; a++ {
				if anc[j][a] {
					for _, d := range dels[a] {
						seen[d] = true
					}
				}
			}
			snap := &spacesyncproto.SpaceSettingsSnapshot{}
			for i := range objs {
				if seen[i] {
					snap.DeletedIds = append(snap.DeletedIds, objs[i])
				}
			}
			sd.Snapshot = snap
		}
		data, _ := sd.MarshalVT()
		log = append(log, &objecttree.Change{Id: cids[j], PreviousIds: []string{cids[parent]}, Data: data})
		dels = append(dels, []int{k})
	}
	return log, dels
}

func vC15Fresh(log []*objecttree.Change) []*objecttree.Change {
	out := make([]*objecttree.Change, len(log))
	for i, c := range log {
		out[i] = &objecttree.Change{Id: c.Id, PreviousIds: c.PreviousIds, Data: c.Data}
	}
	return out
}

// VerifC15Settings: deleted ids derived incrementally equal those derived from scratch, and only grow.
func VerifC15Settings() {
	n := rt.Param("n", 3)
	objs := rt.Atoms(3, 2)
	log, dels := vC15Log(n, objs)
	sb := NewStateBuilder()
	whole, err := sb.Build(&vC15Tree{log: vC15Fresh(log)}, nil)
	rt.Assert(err == nil, "build-whole")
	// reference: union of all deletions in the log
	for i, o := range objs {
		want := false
		for _, d := range dels {
			for _, k := range d {
				if k == i {
					want = true
				}
			}
		}
		rt.Assert(whole.Exists(o) == want, "deleted-ids-are-exactly-the-recorded-deletions")
	}
	// incremental: a prefix first, then the rest on top of the previous state
	split := 1 + rt.Choose(n+1)
	prefix, err := sb.Build(&vC15Tree{log: vC15Fresh(log[:split])}, nil)
	rt.Assert(err == nil, "build-prefix")
	before := map[string]bool{}
	for _, o := range objs {
		before[o] = prefix.Exists(o)
	}
	inc, err := sb.Build(&vC15Tree{log: vC15Fresh(log)}, prefix)
	rt.Assert(err == nil, "build-incremental")
	for _, o := range objs {
		rt.Assert(inc.Exists(o) == whole.Exists(o), "incremental-equals-from-scratch")
		rt.Assert(!before[o] || inc.Exists(o), "deleted-ids-only-grow")
	}
	rt.Assert(inc.LastIteratedId == whole.LastIteratedId, "same-last-iterated")
	// building again with nothing new changes nothing
	again, err := sb.Build(&vC15Tree{log: vC15Fresh(log)}, inc)
	rt.Assert(err == nil, "build-again")
	for _, o := range objs {
		rt.Assert(again.Exists(o) == whole.Exists(o), "rebuild-is-idempotent")
	}
	rt.Reach("settings")
}
