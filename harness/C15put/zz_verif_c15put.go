//go:build verif

package synctree

import (
	"context"
	"errors"

	"github.com/anyproto/any-sync/commonspace/headsync/headstorage"
	"github.com/anyproto/any-sync/commonspace/object/tree/objecttree"
	"github.com/anyproto/any-sync/commonspace/object/tree/treechangeproto"
	"github.com/anyproto/any-sync/commonspace/object/tree/treestorage"
	"github.com/anyproto/any-sync/commonspace/spacestorage"
	"github.com/anyproto/any-sync/commonspace/sync/objectsync/objectmessages"
	"github.com/anyproto/any-sync/commonspace/sync/syncdeps"
	"github.com/anyproto/any-sync/internal/verifstore"
	rt "github.com/anyproto/any-sync/internal/verifrt"
	"github.com/anyproto/any-sync/net/peer"
)

type vC15pSpace struct {
	spacestorage.SpaceStorage
	hs      headstorage.HeadStorage
	created int
}

func (s *vC15pSpace) HeadStorage() headstorage.HeadStorage { return s.hs }
func (s *vC15pSpace) TreeStorage(ctx context.Context, id string) (objecttree.Storage, error) {
	return nil, treestorage.ErrUnknownTreeId // the tree's data is not (or no longer) stored here
}
func (s *vC15pSpace) CreateTreeStorage(ctx context.Context, payload treestorage.TreeStorageCreatePayload) (objecttree.Storage, error) {
	s.created++
	return nil, errors.New("verif: creation reached (not carried out)")
}

type vC15pClient struct {
	SyncClient
	requests int
}

func (c *vC15pClient) CreateNewTreeRequest(peerId, objectId string) *objectmessages.Request {
	return NewRequest(peerId, "space", objectId, nil, nil, nil)
}
func (c *vC15pClient) SendTreeRequest(ctx context.Context, req syncdeps.Request, collector syncdeps.ResponseCollector) error {
	c.requests++
	return errors.New("verif: remote fetch reached (not carried out)")
}

// VerifC15PutFetch: putting a tree, or fetching it from a peer, under an id whose deletion is recorded fails as
// already deleted before anything is created or requested; an unknown or live id gets through to the next step.
func VerifC15PutFetch() {
	ctx := context.Background()
	w := verifstore.NewWorld()
	hs, err := headstorage.New(ctx, &verifstore.DB{W: w})
	rt.Assert(err == nil, "headstorage-opens")
	status := rt.Choose(4) // 0: no entry, 1: live entry, 2: queued, 3: deleted
	if status > 0 {
		st := []headstorage.DeletedStatus{headstorage.DeletedStatusNotDeleted, headstorage.DeletedStatusQueued, headstorage.DeletedStatusDeleted}[status-1]
		upd := headstorage.HeadsUpdate{Id: "t", Heads: []string{"t"}}
		if status > 1 {
			upd.DeletedStatus = &st
		}
		rt.Assert(hs.UpdateEntry(ctx, upd) == nil, "entry")
	}
	space := &vC15pSpace{hs: hs}
	client := &vC15pClient{}
	deps := BuildDeps{SpaceId: "space", SpaceStorage: space, SyncClient: client}
	gone := status >= 2
	if rt.Bool() {
		_, err := PutSyncTree(ctx, treestorage.TreeStorageCreatePayload{RootRawChange: &treechangeproto.RawTreeChangeWithId{Id: "t", RawChange: []byte{1}}}, deps)
		rt.Assert(err != nil, "put-does-not-silently-succeed")
		rt.Assert(errors.Is(err, spacestorage.ErrTreeStorageAlreadyDeleted) == gone, "put-fails-as-already-deleted-iff-deletion-recorded")
		rt.Assert((space.created == 0) == gone, "nothing-is-created-for-a-deleted-id")
		rt.Reach("put")
	} else {
		_, err := BuildSyncTreeOrGetRemote(peer.CtxWithPeerId(ctx, "peerB"), "t", deps)
		rt.Assert(err != nil, "fetch-does-not-silently-succeed")
		rt.Assert(errors.Is(err, spacestorage.ErrTreeStorageAlreadyDeleted) == gone, "fetch-fails-as-already-deleted-iff-deletion-recorded")
		rt.Assert((client.requests == 0) == gone, "nothing-is-requested-for-a-deleted-id")
		rt.Reach("fetch")
	}
}
