//go:build verif

package pubsub

import (
	"context"
	"errors"

	libcrypto "github.com/libp2p/go-libp2p/core/crypto"
	"storj.io/drpc"

	"github.com/anyproto/any-sync/commonspace/pubsub/pubsubproto"
	rt "github.com/anyproto/any-sync/internal/verifrt"
	"github.com/anyproto/any-sync/net/peer"
	"github.com/anyproto/any-sync/net/streampool"
	"github.com/anyproto/any-sync/util/crypto"
)

type vC17sPub struct{ id string }

func (k *vC17sPub) Equals(o crypto.Key) bool {
	p, ok := o.(*vC17sPub)
	return ok && p.id == k.id
}
func (k *vC17sPub) Raw() ([]byte, error)                    { return []byte(k.id), nil }
func (k *vC17sPub) Encrypt(m []byte) ([]byte, error)        { return m, nil }
func (k *vC17sPub) Verify(d []byte, s []byte) (bool, error) { return true, nil }
func (k *vC17sPub) Marshall() ([]byte, error)               { return []byte(k.id), nil }
func (k *vC17sPub) Storage() []byte                         { return []byte(k.id) }
func (k *vC17sPub) Account() string                         { return k.id }
func (k *vC17sPub) Network() string                         { return k.id }
func (k *vC17sPub) PeerId() string                          { return k.id }
func (k *vC17sPub) LibP2P() (libcrypto.PubKey, error)       { return nil, errors.New("n/a") }

type vC17sStream struct {
	ctx context.Context
}

func (s *vC17sStream) Context() context.Context                          { return s.ctx }
func (s *vC17sStream) MsgSend(msg drpc.Message, enc drpc.Encoding) error { return nil }
func (s *vC17sStream) MsgRecv(msg drpc.Message, enc drpc.Encoding) error { return nil }
func (s *vC17sStream) CloseSend() error                                  { return nil }
func (s *vC17sStream) Close() error                                      { return nil }

type vC17sRelay struct{}

func (vC17sRelay) IsResponsible(spaceId string) bool             { return true }
func (vC17sRelay) IsResponsibleNode(spaceId, peerId string) bool { return peerId == "node2" }
func (vC17sRelay) OtherResponsiblePeers(ctx context.Context, spaceId string) ([]peer.Peer, error) {
	return nil, nil
}

// membership: accounts m1, m2 are members of both spaces; x is a member of none
type vC17sMembers struct{}

func (vC17sMembers) CheckMember(ctx context.Context, spaceId string, identity crypto.PubKey) error {
	if identity.Account() == "m1" || identity.Account() == "m2" {
		return nil
	}
	return errors.New("not a member")
}

type vC17sWorld struct {
	s       *service
	streams []uint32                       // pool ids of the two subscriber streams (0 = ended)
	accts   []string                       // their accounts
	ref     []map[string]map[string]bool   // reference: stream -> space -> pattern -> subscribed
}

var vC17sSpaces = []string{"bafyspace1.a", "bafyspace2.a"}
var vC17sPatterns = []string{"chat", "chat/>"}
var vC17sTopics = []string{"chat", "chat/x"}

func vC17sNew() *vC17sWorld {
	rt.Replace("github.com/anyproto/any-sync/util/crypto.UnmarshalEd25519PublicKeyProto", func(b []byte) (crypto.PubKey, error) {
		if len(b) == 0 {
			return nil, errors.New("verif: empty key")
		}
		return &vC17sPub{id: string(b)}, nil
	})
	s := &service{deps: Deps{Relay: vC17sRelay{}, Membership: vC17sMembers{}}}
	s.cfg = s.deps.Config.withDefaults()
	s.pool = streampool.NewStreamPool(s, s.cfg.streamPoolConfig(), streampool.WithStreamCloseHook(s.onStreamClose))
	rt.Assert(s.pool.Run(context.Background()) == nil, "pool-runs")
	s.remote = make(map[string]*spaceInterest)
	s.streams = make(map[uint32]*streamInterest)
	s.rate =newPeerRateLimiter(1000000, 1000000)
	w := &vC17sWorld{s: s, accts: []string{"m1", "m2"}}
	for i, acc := range w.accts {
		ctx := peer.CtxWithIdentity(peer.CtxWithPeerId(context.Background(), "peer"+acc), []byte(acc))
		// registered without read / write loops (messages stay queued); room for every probe publish of a run
		id, err := streampool.VerifAddStream(s.pool, &vC17sStream{ctx: ctx}, 64)
		rt.Assert(err == nil, "stream-added")
		w.streams = append(w.streams, id)
		w.ref = append(w.ref, map[string]map[string]bool{})
		_ = i
	}
	return w
}

func (w *vC17sWorld) subscribe(i int, space, pattern string) {
	if w.streams[i] == 0 {
		return
	}
	ctx := streampool.VerifStreamCtx(w.s.pool, w.streams[i])
	w.s.handleSubscribe(ctx, "peer"+w.accts[i], &pubsubproto.Subscribe{SpaceId: space, Topics: []string{pattern}})
	if w.ref[i][space] == nil {
		w.ref[i][space] = map[string]bool{}
	}
	w.ref[i][space][pattern] = true
}

func (w *vC17sWorld) unsubscribe(i int, space string, pattern string) {
	if w.streams[i] == 0 {
		return
	}
	ctx := streampool.VerifStreamCtx(w.s.pool, w.streams[i])
	var topics []string
	if pattern != "" {
		topics = []string{pattern}
	}
	w.s.handleUnsubscribe(ctx, "peer"+w.accts[i], &pubsubproto.Unsubscribe{SpaceId: space, Topics: topics})
	if pattern == "" {
		delete(w.ref[i], space)
	} else if w.ref[i][space] != nil {
		delete(w.ref[i][space], pattern)
	}
}

func (w *vC17sWorld) closeStream(i int) {
	if w.streams[i] == 0 {
		return
	}
	streampool.VerifEndStream(w.s.pool, w.streams[i])
	w.streams[i] = 0
	w.ref[i] = map[string]map[string]bool{}
}

func (w *vC17sWorld) evict(space, account string) {
	w.s.EvictMember(space, &vC17sPub{id: account})
	for i, acc := range w.accts {
		if acc == account {
			delete(w.ref[i], space)
		}
	}
}

func (w *vC17sWorld) closeSpace(space string) {
	w.s.CloseSpace(space)
	for i := range w.ref {
		delete(w.ref[i], space)
	}
}

// bookkeeping equals the reference, delivery reaches exactly the matching subscribed streams, once
func (w *vC17sWorld) check(tag string) {
	s := w.s
	totalTags := 0
	for _, space := range vC17sSpaces {
		distinct := map[string]int{}
		for i := range w.ref {
			for p, on := range w.ref[i][space] {
				if on {
					distinct[p]++
				}
			}
		}
		si := s.remote[space]
		if len(distinct) == 0 {
			rt.Assert(si == nil, tag+":no-interest-record-for-a-space-nobody-subscribes")
		} else {
			rt.Assert(si != nil, tag+":interest-record-exists-for-a-subscribed-space")
			if si != nil {
				rt.Assert(si.trie.Len() == len(distinct), tag+":trie-holds-exactly-the-subscribed-patterns")
			}
		}
	}
	for i, id := range w.streams {
		n := 0
		for _, space := range vC17sSpaces {
			for _, on := range w.ref[i][space] {
				if on {
					n++
				}
			}
		}
		totalTags += n
		if id == 0 {
			continue
		}
		strm := s.streams[id]
		if n == 0 {
			rt.Assert(strm == nil, tag+":no-record-for-a-stream-without-interest")
		} else {
			rt.Assert(strm != nil && strm.total == n, tag+":stream-record-counts-its-patterns")
		}
		rt.Assert(len(streampool.VerifStreamTags(s.pool, id)) == n, tag+":stream-carries-exactly-its-routing-tags")
	}
	for id := range s.streams {
		rt.Assert(id == w.streams[0] || id == w.streams[1], tag+":no-record-for-an-ended-stream")
	}
	rt.Assert(streampool.VerifTagCount(s.pool) == totalTags, tag+":no-routing-tag-left-behind")
	// delivery: a member's publish reaches exactly the streams with a matching pattern, one copy each
	for _, space := range vC17sSpaces {
		for _, topic := range vC17sTopics {
			for _, publisher := range []string{"m1", "x"} {
				before := []int{streampool.VerifStreamQueued(s.pool, w.streams[0]), streampool.VerifStreamQueued(s.pool, w.streams[1])}
				ctx := peer.CtxWithIdentity(peer.CtxWithPeerId(context.Background(), "pub"+publisher), []byte(publisher))
				msgId := make([]byte, msgIdLen)
				s.handlePublish(ctx, "pub"+publisher, &pubsubproto.Publish{SpaceId: space, Topic: topic, MsgId: msgId, Identity: []byte(publisher), Payload: []byte("p")})
				for i, id := range w.streams {
					if id == 0 {
						continue
					}
					want := 0
					if publisher == "m1" {
						for p, on := range w.ref[i][space] {
							if on && vC17RefMatch(p, topic) {
								want = 1
							}
						}
					}
					got := streampool.VerifStreamQueued(s.pool, id) - before[i]
					rt.Assert(got == want, tag+":publish-reaches-exactly-the-matching-subscribers-once")
				}
			}
		}
	}
}

func (w *vC17sWorld) step() {
	switch rt.Choose(7) {
	case 6: // a subscribe frame of a stream that has just ended is still being handled: nothing of it may stay,
		// and nothing of anybody else's may go
		i := rt.Choose(2)
		if w.streams[i] != 0 {
			ctx := streampool.VerifStreamCtx(w.s.pool, w.streams[i])
			w.closeStream(i)
			w.s.handleSubscribe(ctx, "peer"+w.accts[i], &pubsubproto.Subscribe{SpaceId: vC17sSpaces[rt.Choose(2)], Topics: []string{vC17sPatterns[rt.Choose(2)]}})
		}
	case 5: // a subscribe frame that names no topic at all: nothing is subscribed, nothing may be recorded
		i := rt.Choose(2)
		if w.streams[i] != 0 {
			ctx := streampool.VerifStreamCtx(w.s.pool, w.streams[i])
			w.s.handleSubscribe(ctx, "peer"+w.accts[i], &pubsubproto.Subscribe{SpaceId: vC17sSpaces[rt.Choose(2)]})
		}
	case 0:
		w.subscribe(rt.Choose(2), vC17sSpaces[rt.Choose(2)], vC17sPatterns[rt.Choose(2)])
	case 1:
		w.unsubscribe(rt.Choose(2), vC17sSpaces[rt.Choose(2)], []string{"", "chat", "chat/>"}[rt.Choose(3)])
	case 2:
		w.closeStream(rt.Choose(2))
	case 3:
		w.evict(vC17sSpaces[rt.Choose(2)], w.accts[rt.Choose(2)])
	case 4:
		w.closeSpace(vC17sSpaces[rt.Choose(2)])
	}
}

// VerifC17Service: from every combination of subscriptions of two member streams over two spaces, any k
// subscribe / unsubscribe / stream-end / evict / close-space operations leave the interest bookkeeping equal to
// the set of live subscriptions, and a publish reaches exactly the matching member subscriptions, once.
func VerifC17Service() {
	k := rt.Param("k", 2)
	w := vC17sNew()
	// initial state: any subset of six subscriptions, made through the real subscribe path
	for i := 0; i < 2; i++ {
		for si, space := range vC17sSpaces {
			for pi, pattern := range vC17sPatterns {
				if si == 1 && pi == 1 {
					continue
				}
				if rt.Bool() {
					w.subscribe(i, space, pattern)
				}
			}
		}
	}
	w.check("initial")
	for j := 0; j < k; j++ {
		w.step()
		w.check("step")
	}
	rt.Reach("service")
}
