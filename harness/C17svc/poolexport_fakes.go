//go:build verif

package streampool

import (
	"context"

	"storj.io/drpc"
)

// exported handles for harnesses of services that own a private pool (pubsub)

// VerifStreamCtx is the context the pool's read loop hands to the message handler for a stream
func VerifStreamCtx(p StreamPool, streamId uint32) context.Context {
	sp := p.(*streamPool)
	st := sp.streams[streamId]
	return streamCtx(st.peerCtx, st.streamId, st.peerId)
}

// VerifLastStreamId: id given to the stream added last
func VerifLastStreamId(p StreamPool) uint32 { return p.(*streamPool).lastStreamId }

// VerifEndStream is what the read loop does when the stream ends
func VerifEndStream(p StreamPool, streamId uint32) {
	sp := p.(*streamPool)
	if st := sp.streams[streamId]; st != nil {
		st.streamClose()
	}
}

func VerifStreamTags(p StreamPool, streamId uint32) []string {
	sp := p.(*streamPool)
	if st := sp.streams[streamId]; st != nil {
		return append([]string{}, st.tags...)
	}
	return nil
}

func VerifStreamQueued(p StreamPool, streamId uint32) int {
	sp := p.(*streamPool)
	if st := sp.streams[streamId]; st != nil {
		return st.queue.Len()
	}
	return -1
}

func VerifTagCount(p StreamPool) int {
	n := 0
	for _, ids := range p.(*streamPool).streamIdsByTag {
		n += len(ids)
	}
	return n
}

// VerifAddStream registers a stream without starting its read and write loops: messages stay queued, and the
// stream ends only when the harness says so (VerifEndStream)
func VerifAddStream(p StreamPool, s drpc.Stream, queueSize int, tags ...string) (uint32, error) {
	st, err := p.(*streamPool).addStream(s, queueSize, tags...)
	if err != nil {
		return 0, err
	}
	return st.streamId, nil
}
