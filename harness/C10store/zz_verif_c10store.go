//go:build verif

package objecttree

import (
	"context"
	"sort"
	"strings"
	"sync/atomic"

	"github.com/anyproto/any-sync/commonspace/headsync/headstorage"
	"github.com/anyproto/any-sync/commonspace/object/tree/treechangeproto"
	"github.com/anyproto/any-sync/internal/verifstore"
	rt "github.com/anyproto/any-sync/internal/verifrt"
	"github.com/anyproto/any-sync/util/crypto"
	"github.com/anyproto/any-sync/util/storeutil"
)

// The real tree storage (storage.go / storagedeferred.go) and the real head storage run over the
// any-store model of internal/verifstore; every storage call is a possible fault and a possible crash point.

type vC10sEnv struct {
	w  *verifstore.World
	db *verifstore.DB
	hs headstorage.HeadStorage
}

func vC10sEnvOn(w *verifstore.World) *vC10sEnv {
	db := &verifstore.DB{W: w}
	hs, err := headstorage.New(context.Background(), db)
	rt.Assert(err == nil, "headstorage-opens")
	return &vC10sEnv{w: w, db: db, hs: hs}
}

func vC10sSorted(ids []string) []string {
	out := append([]string{}, ids...)
	sort.Strings(out)
	return out
}

// canonical text of the durable state the property speaks about
func vC10sDump(w *verifstore.World) string {
	env := vC10sEnvOn(w)
	out := "changes:"
	for _, id := range vC10sSorted(w.Ids(CollName)) {
		d := w.Doc(CollName, id)
		out += id + "@" + d.GetString(TreeKey) + "<" + strings.Join(storeutil.StringsFromArrayValue(d, prevIdsKey), ",") + ">s=" + d.GetString(snapshotIdKey) + ",o=" + d.GetString(OrderKey) + ";"
	}
	out += "|heads:"
	for _, id := range vC10sSorted(w.Ids(headstorage.HeadsCollectionName)) {
		e, err := env.hs.GetEntry(context.Background(), id)
		rt.Assert(err == nil, "head-entry-readable")
		out += id + "=" + strings.Join(e.Heads, ",") + "/" + e.CommonSnapshot + "/" + string(rune('0'+int(e.DeletedStatus))) + "/" + e.ParentId + ";"
	}
	return out
}

// the durable state is a valid set of trees: heads name stored changes, parents and snapshot bases are stored,
// stored order respects causality, every tree reopens with the recorded heads
func vC10sValid(w *verifstore.World, tag string) {
	ctx := context.Background()
	env := vC10sEnvOn(w)
	for _, id := range w.Ids(CollName) {
		d := w.Doc(CollName, id)
		for _, p := range storeutil.StringsFromArrayValue(d, prevIdsKey) {
			rt.Assert(w.Doc(CollName, p) != nil, tag+":parent-of-stored-change-is-stored")
		}
		if s := d.GetString(snapshotIdKey); s != "" {
			rt.Assert(w.Doc(CollName, s) != nil, tag+":snapshot-base-of-stored-change-is-stored")
		}
		_, err := env.hs.GetEntry(ctx, d.GetString(TreeKey))
		rt.Assert(err == nil, tag+":stored-change-belongs-to-a-recorded-tree")
	}
	for _, id := range w.Ids(headstorage.HeadsCollectionName) {
		e, err := env.hs.GetEntry(ctx, id)
		rt.Assert(err == nil, tag+":head-entry-readable")
		if e.DeletedStatus == headstorage.DeletedStatusDeleted {
			continue
		}
		if len(e.Heads) == 0 && w.Doc(CollName, id) == nil {
			// an entry that only carries a deletion mark (no tree data was ever stored under it)
			continue
		}
		if e.DeletedStatus == headstorage.DeletedStatusQueued && w.Doc(CollName, id) == nil {
			// a tree queued for deletion whose data has been removed (the deletion worker marks it deleted next):
			// then all of its data is gone, not a part of it
			for _, cid := range w.Ids(CollName) {
				rt.Assert(w.Doc(CollName, cid).GetString(TreeKey) != id, tag+":deleted-tree-data-is-removed-entirely")
			}
			continue
		}
		for _, h := range e.Heads {
			d := w.Doc(CollName, h)
			rt.Assert(d != nil, tag+":recorded-head-is-stored")
			if d != nil {
				rt.Assert(d.GetString(TreeKey) == id, tag+":recorded-head-belongs-to-the-tree")
			}
		}
		rt.Assert(w.Doc(CollName, e.CommonSnapshot) != nil, tag+":recorded-common-snapshot-is-stored")
		st, err := NewStorage(ctx, id, env.hs, env.db)
		rt.Assert(err == nil, tag+":tree-reopens")
		if err != nil {
			continue
		}
		heads, err := st.Heads(ctx)
		rt.Assert(err == nil && strings.Join(heads, ",") == strings.Join(e.Heads, ","), tag+":reopened-tree-has-the-recorded-heads")
		seen := map[string]bool{}
		err = st.GetAfterOrder(ctx, "", func(ctx context.Context, ch StorageChange) (bool, error) {
			for _, p := range ch.PrevIds {
				rt.Assert(seen[p], tag+":stored-order-respects-causality")
			}
			seen[ch.Id] = true
			return true, nil
		})
		rt.Assert(err == nil, tag+":stored-changes-iterate")
		for _, h := range e.Heads {
			rt.Assert(seen[h], tag+":heads-are-reached-by-iteration")
		}
	}
}

// the space storage hands every tree storage the space-wide add counter
func vC10sSeq(st Storage, err error) (Storage, error) {
	if setter, ok := st.(interface{ SetAddSeq(seq *atomic.Uint64) }); ok && err == nil {
		setter.SetAddSeq(&atomic.Uint64{})
	}
	return st, err
}

func vC10sChange(id, order string, prev ...string) StorageChange {
	return StorageChange{RawChange: []byte{1}, PrevIds: prev, Id: id, SnapshotCounter: 1, SnapshotId: "r", OrderId: order, ChangeSize: 1}
}

type vC10sScenario struct {
	prep func(env *vC10sEnv) Storage             // fault-free setup, returns the storage object the operation uses (may be nil)
	run  func(env *vC10sEnv, st Storage) error   // the operation under test
	post func(env *vC10sEnv, st Storage, tag string) // extra checks after a successful run
	live bool                                       // after an injected error the same live storage object is used again (not reopened)
	big  bool                                       // an operation with more than a hundred storage calls: faults are placed near its end
}

func vC10sScenarios(b *vBuilder) []vC10sScenario {
	ctx := context.Background()
	root := func(id, parent string) *treechangeproto.RawTreeChangeWithId {
		return b.register(&Change{Id: id, IsSnapshot: true, ParentId: parent}, 1)
	}
	r, r2 := root("r", ""), root("r2", "")
	create := func(env *vC10sEnv) Storage {
		st, err := vC10sSeq(CreateStorage(ctx, r, env.hs, env.db))
		rt.Assert(err == nil, "setup-create")
		return st
	}
	createWith1 := func(env *vC10sEnv) Storage {
		st := create(env)
		rt.Assert(st.AddAll(ctx, []StorageChange{vC10sChange("c1", "b1", "r")}, []string{"c1"}, "r") == nil, "setup-add")
		return st
	}
	return []vC10sScenario{
		{ // 0: eager create
			prep: func(env *vC10sEnv) Storage { return nil },
			run:  func(env *vC10sEnv, st Storage) error { _, err := CreateStorage(ctx, r, env.hs, env.db); return err },
		},
		{ // 1: deferred create, materialised by the first add
			prep: func(env *vC10sEnv) Storage { return nil },
			run: func(env *vC10sEnv, st Storage) error {
				d, err := vC10sSeq(CreateStorageWithDeferredCreation(ctx, r, env.hs, env.db))
				if err != nil {
					return err
				}
				return d.AddAll(ctx, []StorageChange{vC10sChange("c1", "b1", "r")}, []string{"c1"}, "r")
			},
		},
		{ // 2: add two changes
			prep: create,
			run: func(env *vC10sEnv, st Storage) error {
				return st.AddAll(ctx, []StorageChange{vC10sChange("c1", "b1", "r"), vC10sChange("c2", "b2", "c1")}, []string{"c2"}, "r")
			},
		},
		{ // 3: add with one change already stored (the no-error variant used after a rebuild)
			prep: createWith1,
			run: func(env *vC10sEnv, st Storage) error {
				return st.AddAllNoError(ctx, []StorageChange{vC10sChange("c1", "b1", "r"), vC10sChange("c2", "b2", "c1"), vC10sChange("c3", "b3", "c1")}, []string{"c2", "c3"}, "r")
			},
		},
		{ // 4: delete the tree data (the deletion worker does this to trees queued for deletion)
			prep: func(env *vC10sEnv) Storage {
				st := createWith1(env)
				q := headstorage.DeletedStatusQueued
				rt.Assert(env.hs.UpdateEntry(ctx, headstorage.HeadsUpdate{Id: "r", DeletedStatus: &q}) == nil, "setup-queue")
				return st
			},
			run:  func(env *vC10sEnv, st Storage) error { return st.Delete(ctx) },
		},
		{ // 5: a second tree next to an existing one
			prep: createWith1,
			run:  func(env *vC10sEnv, st Storage) error { _, err := CreateStorage(ctx, r2, env.hs, env.db); return err },
		},
		{ // 6: deferred create materialised by the no-error add
			prep: func(env *vC10sEnv) Storage { return nil },
			run: func(env *vC10sEnv, st Storage) error {
				d, err := vC10sSeq(CreateStorageWithDeferredCreation(ctx, r, env.hs, env.db))
				if err != nil {
					return err
				}
				return d.AddAllNoError(ctx, []StorageChange{vC10sChange("c1", "b1", "r"), vC10sChange("c2", "b2", "c1")}, []string{"c2"}, "r")
			},
		},
		{ // 7: the deferred storage object a tree holds: a failed first add is retried on the same object
			live: true,
			prep: func(env *vC10sEnv) Storage {
				d, err := vC10sSeq(CreateStorageWithDeferredCreation(ctx, r, env.hs, env.db))
				rt.Assert(err == nil, "setup-deferred")
				return d
			},
			run: func(env *vC10sEnv, st Storage) error {
				return st.AddAll(ctx, []StorageChange{vC10sChange("c1", "b1", "r")}, []string{"c1"}, "r")
			},
		},
		{ // 9: one add of 101 changes (a large remote add): all of them or none
			big:  true,
			prep: create,
			run: func(env *vC10sEnv, st Storage) error {
				var chs []StorageChange
				prev := "r"
				for i := 1; i <= 101; i++ {
					id := "c" + string(rune('0'+i/100)) + string(rune('0'+(i/10)%10)) + string(rune('0'+i%10))
					chs = append(chs, vC10sChange(id, "b"+id[1:], prev))
					prev = id
				}
				return st.AddAll(ctx, chs, []string{prev}, "r")
			},
		},
		{ // 8: an eager storage object: a failed add is retried on the same object
			live: true,
			prep: create,
			run: func(env *vC10sEnv, st Storage) error {
				return st.AddAll(ctx, []StorageChange{vC10sChange("c1", "b1", "r"), vC10sChange("c2", "b2", "c1")}, []string{"c2"}, "r")
			},
		},
	}
}

// VerifC10Store: every tree-storage operation is all-or-nothing under a fault or a crash at any storage call.
func VerifC10Store() {
	b := newVBuilder()
	StorageChangeBuilder = func(keys crypto.KeyStorage, rootChange *treechangeproto.RawTreeChangeWithId) ChangeBuilder { return b }
	scs := vC10sScenarios(b)
	sc := scs[rt.Choose(len(scs))]

	// reference run without faults: the state after
	ref := vC10sEnvOn(verifstore.NewWorld())
	refSt := sc.prep(ref)
	before := vC10sDump(ref.w)
	rt.Assert(sc.run(ref, refSt) == nil, "reference-run-succeeds")
	after := vC10sDump(ref.w)
	vC10sValid(ref.w, "after")
	calls0 := ref.w.Calls

	env := vC10sEnvOn(verifstore.NewWorld())
	st := sc.prep(env)
	rt.Assert(vC10sDump(env.w) == before, "setup-is-deterministic")
	vC10sValid(env.w, "before")
	nCalls := calls0 - env.w.Calls // storage calls the operation makes
	_ = nCalls
	env.w.Calls = 0
	k := rt.IntRange(0, 9)
	if sc.big {
		// the last calls of the operation: an insert of the final chunk, the head upsert, the commit
		k = nCalls - 1 - rt.Choose(4)
	}
	if rt.Bool() {
		// injected error at the k-th storage call
		env.w.FailAt = k
		err := sc.run(env, st)
		faulted := env.w.Faulted
		env.w.FailAt = -1
		if !faulted {
			rt.Assert(err == nil, "no-fault-no-error")
			rt.Assert(vC10sDump(env.w) == after, "fault-free-run-reaches-the-after-state")
			rt.Reach("no-fault")
			return
		}
		rt.Reach("fault")
		rt.Assert(err != nil, "fault-is-reported")
		rt.Assert(vC10sDump(env.w) == before, "failed-operation-leaves-the-state-before")
		vC10sValid(env.w, "after-fault")
		// the same input is accepted again
		if st != nil && !sc.live {
			var err2 error
			st, err2 = vC10sSeq(NewStorage(context.Background(), "r", env.hs, env.db))
			rt.Assert(err2 == nil, "tree-reopens-after-fault")
		}
		rt.Assert(sc.run(env, st) == nil, "retry-after-fault-succeeds")
		rt.Assert(vC10sDump(env.w) == after, "retry-reaches-the-after-state")
		return
	}
	// crash when the k-th storage call is reached: the durable image is the state before or the state after
	env.w.CrashAt = k
	err := sc.run(env, st)
	rt.Assert(err == nil, "run-with-crash-probe-succeeds")
	if env.w.Image == nil {
		rt.Reach("no-crash")
		return
	}
	rt.Reach("crash")
	img := vC10sDump(env.w.Image)
	rt.Assert(rt.AnyOf(img == before, img == after), "crash-image-is-the-state-before-or-after")
	vC10sValid(env.w.Image, "crash-image")
}
