package main

// gosymex: path-wise symbolic execution of Go SSA (go/ssa) with an SMT solver.
// The program under analysis is /repo's current working tree plus overlay
// harness files; see /verif/DESIGN.md §2.

import (
	"crypto/sha256"
	"encoding/json"
	"flag"
	"fmt"
	"os"
	"os/exec"
	"runtime"
	"runtime/debug"
	"sort"
	"strconv"
	"strings"
	"time"

	"golang.org/x/tools/go/packages"
	"golang.org/x/tools/go/ssa"
	"golang.org/x/tools/go/ssa/ssautil"
)

type multiFlag []string

func (m *multiFlag) String() string     { return strings.Join(*m, ",") }
func (m *multiFlag) Set(s string) error { *m = append(*m, s); return nil }

type Result struct {
	Entry           string              `json:"entry"`
	Package         string              `json:"package"`
	RepoState       string              `json:"repo_state"`
	Bounds          map[string]int      `json:"params"`
	Paths           int64               `json:"paths"`
	Transitions     int64               `json:"transitions"`
	Outcomes        map[string]int64    `json:"outcomes"`
	Obligations     map[string]*oblStat `json:"obligations"`
	ObligationsSeen int64               `json:"obligations_total"`
	Discharged      int64               `json:"discharged_total"`
	Reached         map[string]int64    `json:"reach_witnesses"`
	Unsupported     []string            `json:"unsupported,omitempty"`
	EndMessages     []string            `json:"end_messages,omitempty"`
	Violations      []*Violation        `json:"violations"`
	UnknownBranches int64               `json:"unknown_branches"`
	Samples         []PathSample        `json:"samples"`
	Functions       []string            `json:"functions_encoded"`
	FunctionsHash   string              `json:"functions_ssa_hash"`
	Steps           int64               `json:"ssa_instructions_executed"`
	GoSkipped       int64               `json:"go_statements_not_run"`
	Queries         map[string]int64    `json:"queries"`
	SolverTimeS     float64             `json:"solver_time_s"`
	Solver          string              `json:"solver"`
	LoadS           float64             `json:"load_s"`
	WallS           float64             `json:"wall_s"`
	Exhaustive      bool                `json:"exhaustive"`
	Truncated       bool                `json:"truncated"`
	Workers         int                 `json:"workers"`
	MapPerm         bool                `json:"map_iteration_orders_forked"`
}

func main() {
	for _, f := range registerLate {
		f()
	}
	if len(os.Args) > 1 && os.Args[1] == "hookgen" {
		hookgenMain(os.Args[2:])
		return
	}
	var overlays multiFlag
	var params multiFlag
	repo := flag.String("repo", "/repo", "repository root")
	pkgPath := flag.String("pkg", "", "import path of the package holding the harness")
	entry := flag.String("entry", "", "harness function name")
	out := flag.String("out", "", "result JSON file")
	workers := flag.Int("workers", runtime.NumCPU(), "parallel workers")
	steps := flag.Int64("steps", 20_000_000, "per-path SSA instruction budget")
	ccap := flag.Int("concretize-cap", 64, "max values enumerated when concretising one symbolic value")
	maxAlloc := flag.Int64("max-alloc", 1<<22, "max elements in one make/append")
	mapPerm := flag.Bool("mapperm", false, "fork over map iteration orders in non-harness code")
	runGo := flag.Bool("rungo", false, "run go statements inline (synchronously)")
	sched := flag.Bool("sched", false, "schedule go statements cooperatively: every scheduling point is a decision among the runnable goroutines")
	preempt := flag.Int("preempt", 2, "with -sched: preemptive context switches allowed per path")
	verbose := flag.Bool("v", false, "verbose")
	solverBin := flag.String("solver", "z3 -in", "solver command")
	timeout := flag.Int("timeout-ms", 20000, "per-query solver timeout")
	maxPaths := flag.Int64("max-paths", 0, "stop after this many paths (0 = no limit)")
	timeLimit := flag.Duration("time-limit", 0, "stop exploring after this long")
	maxViol := flag.Int("max-violations", 3, "models kept per violated obligation")
	solverLog := flag.String("solver-log", "", "write solver input to <prefix>.<worker>.smt2")
	modfile := flag.String("modfile", "", "alternative go.mod (dependency stubs as replace directives)")
	flag.StringVar(&extraTags, "tags", "", "extra build tags (e.g. purego: the standard library's pure Go hash implementations)")
	buildAll := flag.Bool("build-all", false, "build SSA for all packages up front")
	flag.Var(&overlays, "overlay", "virtual=real overlay file mapping (repeatable)")
	flag.Var(&params, "param", "name=int harness parameter (repeatable)")
	flag.Parse()
	debug.SetMaxStack(4 << 30)
	debug.SetGCPercent(400)

	t0 := time.Now()
	cfg := Config{Workers: *workers, StepBudget: *steps, ConcretizeCap: *ccap, MaxAlloc: *maxAlloc, MapPerm: *mapPerm,
		RunGo: *runGo, Sched: *sched, Preempt: *preempt, Verbose: *verbose, SolverBin: strings.Fields(*solverBin), TimeoutMs: *timeout, MaxPaths: *maxPaths,
		Params: map[string]int{}, MaxViolations: *maxViol, SolverLog: *solverLog, UnbufferedAsOne: true}
	if *timeLimit > 0 {
		cfg.Deadline = time.Now().Add(*timeLimit)
	}
	for _, p := range params {
		kv := strings.SplitN(p, "=", 2)
		if len(kv) != 2 {
			fatal("bad -param " + p)
		}
		v, err := strconv.Atoi(kv[1])
		if err != nil {
			fatal("bad -param " + p)
		}
		cfg.Params[kv[0]] = v
	}
	ov := map[string][]byte{}
	for _, o := range overlays {
		kv := strings.SplitN(o, "=", 2)
		if len(kv) != 2 {
			fatal("bad -overlay " + o)
		}
		b, err := os.ReadFile(kv[1])
		if err != nil {
			fatal(err.Error())
		}
		ov[kv[0]] = b
	}
	os.Setenv("PATH", "/opt/veriftools/go1.26.8/bin:"+os.Getenv("PATH"))
	os.Setenv("GOTOOLCHAIN", "local")
	os.Setenv("GOFLAGS", "-mod=mod")
	os.Setenv("GOPROXY", "off")
	os.Setenv("GOSUMDB", "off")
	pcfg := &packages.Config{
		Mode:       packages.LoadAllSyntax,
		Dir:        *repo,
		Overlay:    ov,
		BuildFlags: buildFlags(*modfile),
		Env: append(os.Environ(), "GOFLAGS=-mod=mod", "GOPROXY=off", "GOSUMDB=off", "GOTOOLCHAIN=local",
			"PATH=/opt/veriftools/go1.26.8/bin:"+os.Getenv("PATH")),
	}
	pkgs, err := packages.Load(pcfg, *pkgPath)
	if err != nil {
		fatal("load: " + err.Error())
	}
	nerr := 0
	packages.Visit(pkgs, nil, func(p *packages.Package) {
		for _, e := range p.Errors {
			if nerr < 20 {
				fmt.Fprintf(os.Stderr, "load error in %s: %v\n", p.PkgPath, e)
			}
			nerr++
		}
	})
	if nerr > 0 {
		fatal(fmt.Sprintf("%d package load errors", nerr))
	}
	prog, spkgs := ssautil.AllPackages(pkgs, ssa.InstantiateGenerics)
	var hpkg *ssa.Package
	for i, p := range pkgs {
		if p.PkgPath == *pkgPath || strings.HasSuffix(p.PkgPath, *pkgPath) {
			hpkg = spkgs[i]
		}
	}
	if hpkg == nil {
		fatal("harness package not found: " + *pkgPath)
	}
	if *buildAll {
		prog.Build()
	} else {
		hpkg.Build()
	}
	fn := hpkg.Func(*entry)
	if fn == nil {
		fatal("entry function not found: " + *entry)
	}
	loadS := time.Since(t0).Seconds()
	if *verbose {
		fmt.Fprintf(os.Stderr, "loaded in %.1fs\n", loadS)
	}

	ex := NewExplorer(cfg, prog, fn)
	ex.Run()

	res := Result{Entry: *entry, Package: hpkg.Pkg.Path(), Bounds: cfg.Params, Paths: ex.paths, Transitions: ex.transitions,
		Outcomes: ex.outcomes, Obligations: ex.obligations, Reached: ex.reached, Violations: ex.violations,
		UnknownBranches: ex.unknownBranches, Samples: ex.samples, Steps: ex.totalSteps, GoSkipped: ex.goSkipped,
		SolverTimeS: ex.solverTime.Seconds(), Solver: *solverBin, LoadS: loadS, Workers: cfg.Workers, MapPerm: cfg.MapPerm,
		Truncated: ex.truncated}
	res.Queries = map[string]int64{"total": ex.queries, "sat": ex.qsat, "unsat": ex.qunsat, "unknown": ex.qunknown,
		"cache_hits": ex.qcache, "solver_errors": ex.solverErrors}
	res.Unsupported = sortedCounts(ex.unsupported, 30)
	res.EndMessages = sortedCounts(ex.endMsgs, 30)
	if res.Violations == nil {
		res.Violations = []*Violation{}
	}
	for _, o := range ex.obligations {
		res.ObligationsSeen += o.Seen
		res.Discharged += o.Trivial + o.Discharged
	}
	// functions executed: repo + harness functions (library ones summarised)
	var fnames []string
	h := sha256.New()
	for name := range ex.funcs {
		fnames = append(fnames, name)
	}
	sort.Strings(fnames)
	for _, n := range fnames {
		h.Write([]byte(n))
	}
	res.Functions = fnames
	res.FunctionsHash = fmt.Sprintf("%x", h.Sum(nil))[:16]
	res.RepoState = repoState(*repo)
	bad := ex.outcomes["unsupported"] + ex.outcomes["engine-error"] + ex.unknownBranches
	for _, o := range ex.obligations {
		bad += o.Unknown
	}
	res.Exhaustive = !ex.truncated && bad == 0
	res.WallS = time.Since(t0).Seconds()
	b, _ := json.MarshalIndent(res, "", " ")
	if *out != "" {
		if err := os.WriteFile(*out, b, 0o644); err != nil {
			fatal(err.Error())
		}
	} else {
		os.Stdout.Write(b)
		fmt.Println()
	}
	fmt.Fprintf(os.Stderr, "%s: paths=%d outcomes=%v obligations=%d discharged=%d violations=%d unknown=%d queries=%d solver=%.1fs wall=%.1fs\n",
		*entry, ex.paths, ex.outcomes, res.ObligationsSeen, res.Discharged, len(ex.violations), ex.unknownBranches, ex.queries,
		ex.solverTime.Seconds(), res.WallS)
	if *verbose {
		for _, l := range sortedCounts(ex.forkSites, 25) {
			fmt.Fprintln(os.Stderr, "  FORKS", l)
		}
	}
	for _, u := range res.Unsupported {
		fmt.Fprintln(os.Stderr, "  UNSUPPORTED", u)
	}
}

var extraTags string

func buildFlags(modfile string) []string {
	tags := "-tags=verif"
	if extraTags != "" {
		tags += "," + extraTags
	}
	f := []string{tags}
	if modfile != "" {
		f = append(f, "-modfile="+modfile)
	}
	return f
}

func repoState(repo string) string {
	outb, err := exec.Command("git", "-C", repo, "rev-parse", "--short", "HEAD").Output()
	if err != nil {
		return "unknown"
	}
	s := strings.TrimSpace(string(outb))
	st, _ := exec.Command("git", "-C", repo, "status", "--porcelain").Output()
	if len(strings.TrimSpace(string(st))) > 0 {
		h := sha256.Sum256(st)
		d, _ := exec.Command("git", "-C", repo, "diff").Output()
		h2 := sha256.Sum256(append(h[:], d...))
		s += fmt.Sprintf("-dirty-%x", h2[:4])
	}
	return s
}

func fatal(msg string) {
	fmt.Fprintln(os.Stderr, "gosymex:", msg)
	os.Exit(3)
}
