package main

// Terms: hash-consed SMT terms over Bool and fixed-width bit-vectors, with
// constant folding and light algebraic simplification.  A term table belongs
// to exactly one worker (no locking).

import (
	"fmt"
	"math/bits"
	"sort"
	"strings"
)

type Op uint8

const (
	OpConst Op = iota // BV constant (w>0) or Bool constant (w==0), value in val
	OpVar             // named variable
	OpNot             // Bool
	OpAnd             // Bool n-ary (2)
	OpOr
	OpEq  // any sort -> Bool
	OpIte // (Bool, a, a)
	OpBvAdd
	OpBvSub
	OpBvMul
	OpBvUdiv
	OpBvSdiv
	OpBvUrem
	OpBvSrem
	OpBvAnd
	OpBvOr
	OpBvXor
	OpBvNot
	OpBvNeg
	OpBvShl
	OpBvLshr
	OpBvAshr
	OpBvUlt
	OpBvUle
	OpBvSlt
	OpBvSle
	OpConcat  // (hi, lo)
	OpExtract // args[0], hi=val>>16, lo=val&0xffff
	OpZext    // args[0] to width w
	OpSext
	OpUF // uninterpreted function application: name, args; result width w (0 => Bool)
)

var opNames = map[Op]string{
	OpNot: "not", OpAnd: "and", OpOr: "or", OpEq: "=", OpIte: "ite",
	OpBvAdd: "bvadd", OpBvSub: "bvsub", OpBvMul: "bvmul", OpBvUdiv: "bvudiv", OpBvSdiv: "bvsdiv",
	OpBvUrem: "bvurem", OpBvSrem: "bvsrem", OpBvAnd: "bvand", OpBvOr: "bvor", OpBvXor: "bvxor",
	OpBvNot: "bvnot", OpBvNeg: "bvneg", OpBvShl: "bvshl", OpBvLshr: "bvlshr", OpBvAshr: "bvashr",
	OpBvUlt: "bvult", OpBvUle: "bvule", OpBvSlt: "bvslt", OpBvSle: "bvsle", OpConcat: "concat",
}

type Term struct {
	op   Op
	w    int // 0 = Bool
	val  uint64
	name string
	args []*Term
	id   int
	vars []int // sorted ids of variables / UF symbols occurring (nil for const)
	size int   // dag-ish size estimate
	def  bool  // emitted to the solver as define-fun
}

type termKey struct {
	op         Op
	w          int
	val        uint64
	name       string
	a0, a1, a2 int
}

type TermTable struct {
	tab    map[termKey]*Term
	nary   map[string]*Term
	next   int
	consts map[[2]uint64]*Term
	tTrue  *Term
	tFalse *Term
	// symbol ids for vars/UFs (for slicing)
	symIDs   map[string]int
	symNames []string
	// declarations to send to the solver, in order
	decls    []string
	declared map[string]bool
	// distinct atoms
	varList []*Term
}

func NewTermTable() *TermTable {
	tt := &TermTable{tab: map[termKey]*Term{}, nary: map[string]*Term{}, consts: map[[2]uint64]*Term{},
		symIDs: map[string]int{}, declared: map[string]bool{}}
	tt.tTrue = &Term{op: OpConst, w: 0, val: 1, id: tt.nid()}
	tt.tFalse = &Term{op: OpConst, w: 0, val: 0, id: tt.nid()}
	return tt
}

func (tt *TermTable) nid() int { tt.next++; return tt.next }

func (tt *TermTable) symID(name string) int {
	if id, ok := tt.symIDs[name]; ok {
		return id
	}
	id := len(tt.symNames)
	tt.symIDs[name] = id
	tt.symNames = append(tt.symNames, name)
	return id
}

func mask(w int) uint64 {
	if w >= 64 {
		return ^uint64(0)
	}
	return (uint64(1) << uint(w)) - 1
}

func (tt *TermTable) Bool(b bool) *Term {
	if b {
		return tt.tTrue
	}
	return tt.tFalse
}

func (tt *TermTable) Const(w int, v uint64) *Term {
	if w <= 0 || w > 64 {
		panic(fmt.Sprintf("Const width %d", w))
	}
	v &= mask(w)
	k := [2]uint64{uint64(w), v}
	if t, ok := tt.consts[k]; ok {
		return t
	}
	t := &Term{op: OpConst, w: w, val: v, id: tt.nid()}
	tt.consts[k] = t
	return t
}

func (t *Term) IsConst() bool { return t.op == OpConst }
func (t *Term) IsTrue() bool  { return t.op == OpConst && t.w == 0 && t.val == 1 }
func (t *Term) IsFalse() bool { return t.op == OpConst && t.w == 0 && t.val == 0 }

// signed value of a constant
func (t *Term) sval() int64 {
	if t.w >= 64 {
		return int64(t.val)
	}
	sh := uint(64 - t.w)
	return int64(t.val<<sh) >> sh
}

func mergeVars(a, b []int) []int {
	if len(a) == 0 {
		return b
	}
	if len(b) == 0 {
		return a
	}
	out := make([]int, 0, len(a)+len(b))
	i, j := 0, 0
	for i < len(a) && j < len(b) {
		switch {
		case a[i] < b[j]:
			out = append(out, a[i])
			i++
		case a[i] > b[j]:
			out = append(out, b[j])
			j++
		default:
			out = append(out, a[i])
			i++
			j++
		}
	}
	out = append(out, a[i:]...)
	out = append(out, b[j:]...)
	return out
}

func (tt *TermTable) mk(op Op, w int, val uint64, name string, args ...*Term) *Term {
	if len(args) <= 3 {
		k := termKey{op: op, w: w, val: val, name: name}
		if len(args) > 0 {
			k.a0 = args[0].id
		}
		if len(args) > 1 {
			k.a1 = args[1].id
		}
		if len(args) > 2 {
			k.a2 = args[2].id
		}
		if t, ok := tt.tab[k]; ok {
			return t
		}
		t := tt.newTerm(op, w, val, name, args)
		tt.tab[k] = t
		return t
	}
	var sb strings.Builder
	fmt.Fprintf(&sb, "%d/%d/%d/%s", op, w, val, name)
	for _, a := range args {
		fmt.Fprintf(&sb, ",%d", a.id)
	}
	ks := sb.String()
	if t, ok := tt.nary[ks]; ok {
		return t
	}
	t := tt.newTerm(op, w, val, name, args)
	tt.nary[ks] = t
	return t
}

func (tt *TermTable) newTerm(op Op, w int, val uint64, name string, args []*Term) *Term {
	t := &Term{op: op, w: w, val: val, name: name, args: append([]*Term(nil), args...), id: tt.nid()}
	t.size = 1
	for _, a := range args {
		t.vars = mergeVars(t.vars, a.vars)
		t.size += a.size
	}
	if op == OpVar || op == OpUF {
		t.vars = mergeVars(t.vars, []int{tt.symID(name)})
	}
	return t
}

func sortName(w int) string {
	if w == 0 {
		return "Bool"
	}
	return fmt.Sprintf("(_ BitVec %d)", w)
}

// Var creates (or returns) a named variable.
func (tt *TermTable) Var(name string, w int) *Term {
	t := tt.mk(OpVar, w, 0, name)
	if !tt.declared[name] {
		tt.declared[name] = true
		tt.decls = append(tt.decls, fmt.Sprintf("(declare-const %s %s)", name, sortName(w)))
		tt.varList = append(tt.varList, t)
	}
	return t
}

// UF application.
func (tt *TermTable) UF(name string, w int, args ...*Term) *Term {
	full := name
	if !tt.declared["uf:"+full] {
		tt.declared["uf:"+full] = true
		var sb strings.Builder
		fmt.Fprintf(&sb, "(declare-fun %s (", full)
		for i, a := range args {
			if i > 0 {
				sb.WriteByte(' ')
			}
			sb.WriteString(sortName(a.w))
		}
		fmt.Fprintf(&sb, ") %s)", sortName(w))
		tt.decls = append(tt.decls, sb.String())
	}
	return tt.mk(OpUF, w, 0, full, args...)
}

func (tt *TermTable) Not(a *Term) *Term {
	if a.op == OpConst {
		return tt.Bool(a.val == 0)
	}
	if a.op == OpNot {
		return a.args[0]
	}
	return tt.mk(OpNot, 0, 0, "", a)
}

func (tt *TermTable) And(a, b *Term) *Term {
	if a.IsFalse() || b.IsFalse() {
		return tt.tFalse
	}
	if a.IsTrue() {
		return b
	}
	if b.IsTrue() {
		return a
	}
	if a == b {
		return a
	}
	if (a.op == OpNot && a.args[0] == b) || (b.op == OpNot && b.args[0] == a) {
		return tt.tFalse
	}
	if a.id > b.id {
		a, b = b, a
	}
	return tt.mk(OpAnd, 0, 0, "", a, b)
}

func (tt *TermTable) Or(a, b *Term) *Term {
	if a.IsTrue() || b.IsTrue() {
		return tt.tTrue
	}
	if a.IsFalse() {
		return b
	}
	if b.IsFalse() {
		return a
	}
	if a == b {
		return a
	}
	if (a.op == OpNot && a.args[0] == b) || (b.op == OpNot && b.args[0] == a) {
		return tt.tTrue
	}
	if a.id > b.id {
		a, b = b, a
	}
	return tt.mk(OpOr, 0, 0, "", a, b)
}

func (tt *TermTable) AndN(ts ...*Term) *Term {
	r := tt.tTrue
	for _, t := range ts {
		r = tt.And(r, t)
	}
	return r
}

func (tt *TermTable) Implies(a, b *Term) *Term { return tt.Or(tt.Not(a), b) }

func (tt *TermTable) Eq(a, b *Term) *Term {
	if a.w != b.w {
		panic(fmt.Sprintf("Eq width mismatch %d vs %d", a.w, b.w))
	}
	if a == b {
		return tt.tTrue
	}
	if a.op == OpConst && b.op == OpConst {
		return tt.Bool(a.val == b.val)
	}
	if a.w == 0 {
		// boolean equality
		if a.op == OpConst {
			if a.val == 1 {
				return b
			}
			return tt.Not(b)
		}
		if b.op == OpConst {
			if b.val == 1 {
				return a
			}
			return tt.Not(a)
		}
	}
	// ite(c, k1, k2) == k  folding
	if b.op == OpConst && a.op == OpIte && a.args[1].op == OpConst && a.args[2].op == OpConst {
		t1 := a.args[1].val == b.val
		t2 := a.args[2].val == b.val
		switch {
		case t1 && t2:
			return tt.tTrue
		case t1:
			return a.args[0]
		case t2:
			return tt.Not(a.args[0])
		default:
			return tt.tFalse
		}
	}
	if a.op == OpConst && b.op == OpIte {
		return tt.Eq(b, a)
	}
	// zext(x) == const
	if b.op == OpConst && a.op == OpZext {
		iw := a.args[0].w
		if iw < 64 && b.val > mask(iw) {
			return tt.tFalse
		}
		return tt.Eq(a.args[0], tt.ConstW(iw, b.val))
	}
	if a.op == OpConst && b.op == OpZext {
		return tt.Eq(b, a)
	}
	if a.id > b.id {
		a, b = b, a
	}
	return tt.mk(OpEq, 0, 0, "", a, b)
}

// ConstW: constant of any width <= 64
func (tt *TermTable) ConstW(w int, v uint64) *Term { return tt.Const(w, v) }

func (tt *TermTable) Ite(c, a, b *Term) *Term {
	if c.op == OpConst {
		if c.val == 1 {
			return a
		}
		return b
	}
	if a == b {
		return a
	}
	if a.op == OpConst && b.op == OpConst && a.w == b.w && a.val == b.val {
		return a
	}
	if a.w == 0 {
		if a.IsTrue() && b.IsFalse() {
			return c
		}
		if a.IsFalse() && b.IsTrue() {
			return tt.Not(c)
		}
		if a.IsTrue() {
			return tt.Or(c, b)
		}
		if a.IsFalse() {
			return tt.And(tt.Not(c), b)
		}
		if b.IsTrue() {
			return tt.Or(tt.Not(c), a)
		}
		if b.IsFalse() {
			return tt.And(c, a)
		}
	}
	if c.op == OpNot {
		return tt.Ite(c.args[0], b, a)
	}
	return tt.mk(OpIte, a.w, 0, "", c, a, b)
}

func foldBin(op Op, w int, x, y uint64) (uint64, bool) {
	m := mask(w)
	sx := func(v uint64) int64 {
		if w >= 64 {
			return int64(v)
		}
		sh := uint(64 - w)
		return int64(v<<sh) >> sh
	}
	switch op {
	case OpBvAdd:
		return (x + y) & m, true
	case OpBvSub:
		return (x - y) & m, true
	case OpBvMul:
		return (x * y) & m, true
	case OpBvUdiv:
		if y == 0 {
			return m, true
		}
		return (x / y) & m, true
	case OpBvUrem:
		if y == 0 {
			return x, true
		}
		return (x % y) & m, true
	case OpBvSdiv:
		if y == 0 {
			if sx(x) < 0 {
				return 1, true
			}
			return m, true
		}
		a, b := sx(x), sx(y)
		if b == -1 {
			return uint64(-a) & m, true
		}
		return uint64(a/b) & m, true
	case OpBvSrem:
		if y == 0 {
			return x, true
		}
		a, b := sx(x), sx(y)
		if b == -1 {
			return 0, true
		}
		return uint64(a%b) & m, true
	case OpBvAnd:
		return x & y, true
	case OpBvOr:
		return x | y, true
	case OpBvXor:
		return x ^ y, true
	case OpBvShl:
		if y >= uint64(w) {
			return 0, true
		}
		return (x << y) & m, true
	case OpBvLshr:
		if y >= uint64(w) {
			return 0, true
		}
		return (x >> y) & m, true
	case OpBvAshr:
		if y >= uint64(w) {
			if sx(x) < 0 {
				return m, true
			}
			return 0, true
		}
		return uint64(sx(x)>>y) & m, true
	}
	return 0, false
}

func (tt *TermTable) Bin(op Op, a, b *Term) *Term {
	if a.w != b.w {
		panic(fmt.Sprintf("Bin %s width mismatch %d vs %d", opNames[op], a.w, b.w))
	}
	w := a.w
	if w > 64 {
		return tt.mk(op, w, 0, "", a, b)
	}
	if a.op == OpConst && b.op == OpConst {
		if v, ok := foldBin(op, w, a.val, b.val); ok {
			return tt.Const(w, v)
		}
	}
	switch op {
	case OpBvAdd:
		if a.op == OpConst && a.val == 0 {
			return b
		}
		if b.op == OpConst && b.val == 0 {
			return a
		}
		// (x + c1) + c2
		if b.op == OpConst && a.op == OpBvAdd && a.args[1].op == OpConst {
			return tt.Bin(OpBvAdd, a.args[0], tt.Const(w, a.args[1].val+b.val))
		}
		if a.op == OpConst {
			a, b = b, a
		}
	case OpBvSub:
		if b.op == OpConst && b.val == 0 {
			return a
		}
		if a == b {
			return tt.Const(w, 0)
		}
		if b.op == OpConst {
			return tt.Bin(OpBvAdd, a, tt.Const(w, -b.val))
		}
	case OpBvMul:
		if a.op == OpConst {
			a, b = b, a
		}
		if b.op == OpConst {
			if b.val == 0 {
				return b
			}
			if b.val == 1 {
				return a
			}
		}
	case OpBvAnd:
		if a == b {
			return a
		}
		if a.op == OpConst {
			a, b = b, a
		}
		if b.op == OpConst {
			if b.val == 0 {
				return b
			}
			if b.val == mask(w) {
				return a
			}
		}
	case OpBvOr:
		if a == b {
			return a
		}
		if a.op == OpConst {
			a, b = b, a
		}
		if b.op == OpConst {
			if b.val == 0 {
				return a
			}
			if b.val == mask(w) {
				return b
			}
		}
	case OpBvXor:
		if a == b {
			return tt.Const(w, 0)
		}
		if a.op == OpConst {
			a, b = b, a
		}
		if b.op == OpConst && b.val == 0 {
			return a
		}
	case OpBvShl, OpBvLshr, OpBvAshr:
		if b.op == OpConst && b.val == 0 {
			return a
		}
		if b.op == OpConst && b.val >= uint64(w) && op != OpBvAshr {
			return tt.Const(w, 0)
		}
		if a.op == OpConst && a.val == 0 {
			return a
		}
	case OpBvUdiv, OpBvSdiv:
		if b.op == OpConst && b.val == 1 {
			return a
		}
	}
	return tt.mk(op, w, 0, "", a, b)
}

func (tt *TermTable) Cmp(op Op, a, b *Term) *Term {
	if a.w != b.w {
		panic(fmt.Sprintf("Cmp width mismatch %d vs %d", a.w, b.w))
	}
	if a.op == OpConst && b.op == OpConst && a.w <= 64 {
		switch op {
		case OpBvUlt:
			return tt.Bool(a.val < b.val)
		case OpBvUle:
			return tt.Bool(a.val <= b.val)
		case OpBvSlt:
			return tt.Bool(a.sval() < b.sval())
		case OpBvSle:
			return tt.Bool(a.sval() <= b.sval())
		}
	}
	if a == b {
		return tt.Bool(op == OpBvUle || op == OpBvSle)
	}
	if a.w <= 64 {
		switch op {
		case OpBvUlt:
			if b.op == OpConst && b.val == 0 {
				return tt.tFalse
			}
			if a.op == OpConst && a.val == mask(a.w) {
				return tt.tFalse
			}
		case OpBvUle:
			if a.op == OpConst && a.val == 0 {
				return tt.tTrue
			}
			if b.op == OpConst && b.val == mask(a.w) {
				return tt.tTrue
			}
		}
		// comparisons on zero-extended values against constants: range folding
		if a.op == OpZext && b.op == OpConst {
			iw := a.args[0].w
			if iw < a.w {
				bs := b.sval()
				inRange := b.val <= mask(iw) // as unsigned of outer width, top bits zero
				switch op {
				case OpBvSlt, OpBvUlt:
					if op == OpBvSlt && bs < 0 {
						return tt.tFalse
					}
					if !inRange {
						return tt.tTrue
					}
					return tt.Cmp(OpBvUlt, a.args[0], tt.Const(iw, b.val))
				case OpBvSle, OpBvUle:
					if op == OpBvSle && bs < 0 {
						return tt.tFalse
					}
					if !inRange {
						return tt.tTrue
					}
					return tt.Cmp(OpBvUle, a.args[0], tt.Const(iw, b.val))
				}
			}
		}
		if b.op == OpZext && a.op == OpConst {
			iw := b.args[0].w
			if iw < b.w {
				as := a.sval()
				inRange := a.val <= mask(iw)
				switch op {
				case OpBvSlt, OpBvUlt:
					if op == OpBvSlt && as < 0 {
						return tt.tTrue
					}
					if !inRange {
						return tt.tFalse
					}
					return tt.Cmp(OpBvUlt, tt.Const(iw, a.val), b.args[0])
				case OpBvSle, OpBvUle:
					if op == OpBvSle && as < 0 {
						return tt.tTrue
					}
					if !inRange {
						return tt.tFalse
					}
					return tt.Cmp(OpBvUle, tt.Const(iw, a.val), b.args[0])
				}
			}
		}
	}
	return tt.mk(op, 0, 0, "", a, b)
}

func (tt *TermTable) BvNot(a *Term) *Term {
	if a.op == OpConst {
		return tt.Const(a.w, ^a.val)
	}
	if a.op == OpBvNot {
		return a.args[0]
	}
	return tt.mk(OpBvNot, a.w, 0, "", a)
}

func (tt *TermTable) BvNeg(a *Term) *Term {
	if a.op == OpConst {
		return tt.Const(a.w, -a.val)
	}
	return tt.mk(OpBvNeg, a.w, 0, "", a)
}

func (tt *TermTable) Extract(a *Term, hi, lo int) *Term {
	if hi < lo || hi >= a.w {
		panic(fmt.Sprintf("Extract [%d:%d] of width %d", hi, lo, a.w))
	}
	w := hi - lo + 1
	if w == a.w {
		return a
	}
	if a.op == OpConst {
		return tt.Const(w, a.val>>uint(lo))
	}
	switch a.op {
	case OpConcat:
		lw := a.args[1].w
		if hi < lw {
			return tt.Extract(a.args[1], hi, lo)
		}
		if lo >= lw {
			return tt.Extract(a.args[0], hi-lw, lo-lw)
		}
	case OpZext, OpSext:
		iw := a.args[0].w
		if hi < iw {
			return tt.Extract(a.args[0], hi, lo)
		}
		if a.op == OpZext && lo >= iw && w <= 64 {
			return tt.Const(w, 0)
		}
	case OpExtract:
		ilo := int(a.val & 0xffff)
		return tt.Extract(a.args[0], hi+ilo, lo+ilo)
	case OpBvAnd, OpBvOr, OpBvXor:
		if lo == 0 || true {
			return tt.Bin(a.op, tt.Extract(a.args[0], hi, lo), tt.Extract(a.args[1], hi, lo))
		}
	case OpBvAdd, OpBvSub, OpBvMul:
		if lo == 0 {
			return tt.Bin(a.op, tt.Extract(a.args[0], hi, 0), tt.Extract(a.args[1], hi, 0))
		}
	case OpBvLshr:
		// (x >> c)[hi:lo] = x[hi+c:lo+c] when in range
		if a.args[1].op == OpConst {
			c := int(a.args[1].val)
			if hi+c < a.w {
				return tt.Extract(a.args[0], hi+c, lo+c)
			}
		}
	case OpBvShl:
		if a.args[1].op == OpConst {
			c := int(a.args[1].val)
			if lo >= c {
				return tt.Extract(a.args[0], hi-c, lo-c)
			}
			if hi < c && w <= 64 {
				return tt.Const(w, 0)
			}
		}
	case OpIte:
		if a.args[1].op == OpConst || a.args[2].op == OpConst {
			return tt.Ite(a.args[0], tt.Extract(a.args[1], hi, lo), tt.Extract(a.args[2], hi, lo))
		}
	}
	return tt.mk(OpExtract, w, uint64(hi)<<16|uint64(lo), "", a)
}

func (tt *TermTable) Concat(hi, lo *Term) *Term {
	w := hi.w + lo.w
	if hi.op == OpConst && lo.op == OpConst && w <= 64 {
		return tt.Const(w, hi.val<<uint(lo.w)|lo.val)
	}
	if hi.op == OpConst && hi.val == 0 && w <= 64 {
		return tt.Zext(lo, w)
	}
	// extract(x,h,m+1) ++ extract(x,m,l) = extract(x,h,l)
	if hi.op == OpExtract && lo.op == OpExtract && hi.args[0] == lo.args[0] {
		hl := int(hi.val & 0xffff)
		lh := int(lo.val >> 16)
		if hl == lh+1 {
			return tt.Extract(hi.args[0], int(hi.val>>16), int(lo.val&0xffff))
		}
	}
	return tt.mk(OpConcat, w, 0, "", hi, lo)
}

func (tt *TermTable) Zext(a *Term, w int) *Term {
	if w == a.w {
		return a
	}
	if w < a.w {
		return tt.Extract(a, w-1, 0)
	}
	if a.op == OpConst && w <= 64 {
		return tt.Const(w, a.val)
	}
	if a.op == OpZext {
		return tt.Zext(a.args[0], w)
	}
	return tt.mk(OpZext, w, 0, "", a)
}

func (tt *TermTable) Sext(a *Term, w int) *Term {
	if w == a.w {
		return a
	}
	if w < a.w {
		return tt.Extract(a, w-1, 0)
	}
	if a.op == OpConst && w <= 64 {
		return tt.Const(w, uint64(a.sval()))
	}
	if a.op == OpZext {
		return tt.Zext(a.args[0], w)
	}
	return tt.mk(OpSext, w, 0, "", a)
}

// ---------------------------------------------------------------- printing

func constStr(w int, v uint64) string {
	if w == 0 {
		if v == 1 {
			return "true"
		}
		return "false"
	}
	if w%4 == 0 {
		return fmt.Sprintf("#x%0*x", w/4, v)
	}
	return fmt.Sprintf("#b%0*b", w, v)
}

// ref returns the textual reference to t, emitting definitions for compound
// sub-terms into out (in dependency order) the first time they are seen.
func (tt *TermTable) ref(t *Term, out *[]string) string {
	switch t.op {
	case OpConst:
		return constStr(t.w, t.val)
	case OpVar:
		return t.name
	}
	name := fmt.Sprintf("t%d", t.id)
	if t.def {
		return name
	}
	var sb strings.Builder
	args := make([]string, len(t.args))
	for i, a := range t.args {
		args[i] = tt.ref(a, out)
	}
	switch t.op {
	case OpExtract:
		fmt.Fprintf(&sb, "((_ extract %d %d) %s)", t.val>>16, t.val&0xffff, args[0])
	case OpZext:
		fmt.Fprintf(&sb, "((_ zero_extend %d) %s)", t.w-t.args[0].w, args[0])
	case OpSext:
		fmt.Fprintf(&sb, "((_ sign_extend %d) %s)", t.w-t.args[0].w, args[0])
	case OpUF:
		if len(args) == 0 {
			sb.WriteString(t.name)
		} else {
			fmt.Fprintf(&sb, "(%s %s)", t.name, strings.Join(args, " "))
		}
	default:
		fmt.Fprintf(&sb, "(%s %s)", opNames[t.op], strings.Join(args, " "))
	}
	t.def = true
	*out = append(*out, fmt.Sprintf("(define-fun %s () %s %s)", name, sortName(t.w), sb.String()))
	return name
}

// String renders a term for humans (bounded).
func (t *Term) String() string {
	var sb strings.Builder
	t.str(&sb, 6)
	return sb.String()
}

func (t *Term) str(sb *strings.Builder, depth int) {
	switch t.op {
	case OpConst:
		if t.w == 0 {
			sb.WriteString(constStr(0, t.val))
		} else {
			fmt.Fprintf(sb, "%d", t.val)
		}
		return
	case OpVar:
		sb.WriteString(t.name)
		return
	}
	if depth == 0 {
		fmt.Fprintf(sb, "t%d", t.id)
		return
	}
	switch t.op {
	case OpExtract:
		fmt.Fprintf(sb, "(extract[%d:%d] ", t.val>>16, t.val&0xffff)
	case OpZext:
		fmt.Fprintf(sb, "(zext%d ", t.w)
	case OpSext:
		fmt.Fprintf(sb, "(sext%d ", t.w)
	case OpUF:
		fmt.Fprintf(sb, "(%s ", t.name)
	default:
		fmt.Fprintf(sb, "(%s ", opNames[t.op])
	}
	for i, a := range t.args {
		if i > 0 {
			sb.WriteByte(' ')
		}
		a.str(sb, depth-1)
	}
	sb.WriteByte(')')
}

// evalTerm evaluates t under a model of variables / UF applications.
func (tt *TermTable) eval(t *Term, m map[int]uint64, memo map[int]uint64) uint64 {
	if t.op == OpConst {
		return t.val
	}
	if v, ok := memo[t.id]; ok {
		return v
	}
	var r uint64
	switch t.op {
	case OpVar, OpUF:
		r = m[t.id]
	case OpNot:
		r = 1 - tt.eval(t.args[0], m, memo)
	case OpAnd:
		r = tt.eval(t.args[0], m, memo) & tt.eval(t.args[1], m, memo)
	case OpOr:
		r = tt.eval(t.args[0], m, memo) | tt.eval(t.args[1], m, memo)
	case OpEq:
		if tt.eval(t.args[0], m, memo) == tt.eval(t.args[1], m, memo) {
			r = 1
		}
	case OpIte:
		if tt.eval(t.args[0], m, memo) == 1 {
			r = tt.eval(t.args[1], m, memo)
		} else {
			r = tt.eval(t.args[2], m, memo)
		}
	case OpBvNot:
		r = ^tt.eval(t.args[0], m, memo) & mask(t.w)
	case OpBvNeg:
		r = -tt.eval(t.args[0], m, memo) & mask(t.w)
	case OpBvUlt, OpBvUle, OpBvSlt, OpBvSle:
		a, b := tt.eval(t.args[0], m, memo), tt.eval(t.args[1], m, memo)
		w := t.args[0].w
		sa, sb := (&Term{w: w, val: a}).sval(), (&Term{w: w, val: b}).sval()
		var c bool
		switch t.op {
		case OpBvUlt:
			c = a < b
		case OpBvUle:
			c = a <= b
		case OpBvSlt:
			c = sa < sb
		case OpBvSle:
			c = sa <= sb
		}
		if c {
			r = 1
		}
	case OpConcat:
		r = tt.eval(t.args[0], m, memo)<<uint(t.args[1].w) | tt.eval(t.args[1], m, memo)
	case OpExtract:
		r = (tt.eval(t.args[0], m, memo) >> uint(t.val&0xffff)) & mask(t.w)
	case OpZext:
		r = tt.eval(t.args[0], m, memo)
	case OpSext:
		r = uint64((&Term{w: t.args[0].w, val: tt.eval(t.args[0], m, memo)}).sval()) & mask(t.w)
	default:
		a, b := tt.eval(t.args[0], m, memo), tt.eval(t.args[1], m, memo)
		r, _ = foldBin(t.op, t.w, a, b)
	}
	memo[t.id] = r
	return r
}

func log2(v uint64) int { return bits.Len64(v) - 1 }

func sortedKeys(m map[string]int) []string {
	out := make([]string, 0, len(m))
	for k := range m {
		out = append(out, k)
	}
	sort.Strings(out)
	return out
}
