package main

// sync.Map modelled by the engine's own map (keys and values are interface values); the real one hashes keys
// through runtime type words the executor has no model for.

import (
	"go/types"

	"golang.org/x/tools/go/ssa"
)

func (in *Interp) syncMapOf(p Value) *Map {
	ptr := p.(*Value)
	in.checkNilPtr(ptr)
	if in.syncMaps == nil {
		in.syncMaps = map[*Value]*Map{}
	}
	m, ok := in.syncMaps[ptr]
	if !ok {
		m = &Map{kt: types.NewInterfaceType(nil, nil)}
		in.syncMaps[ptr] = m
	}
	return m
}

func init() {
	registerLate = append(registerLate, func() {
		nilIface := Iface{}
		intrinsics["(*sync.Map).Load"] = func(in *Interp, c *frame, fn *ssa.Function, a []Value) Value {
			m := in.syncMapOf(a[0])
			if i := in.mapFind(m, a[1]); i >= 0 {
				return Tuple{copyVal(m.entries[i].v), in.tt.Bool(true)}
			}
			return Tuple{nilIface, in.tt.Bool(false)}
		}
		intrinsics["(*sync.Map).Store"] = func(in *Interp, c *frame, fn *ssa.Function, a []Value) Value {
			in.mapSet(in.syncMapOf(a[0]), a[1], a[2])
			return nil
		}
		intrinsics["(*sync.Map).LoadOrStore"] = func(in *Interp, c *frame, fn *ssa.Function, a []Value) Value {
			m := in.syncMapOf(a[0])
			if i := in.mapFind(m, a[1]); i >= 0 {
				return Tuple{copyVal(m.entries[i].v), in.tt.Bool(true)}
			}
			in.mapSet(m, a[1], a[2])
			return Tuple{a[2], in.tt.Bool(false)}
		}
		intrinsics["(*sync.Map).LoadAndDelete"] = func(in *Interp, c *frame, fn *ssa.Function, a []Value) Value {
			m := in.syncMapOf(a[0])
			if i := in.mapFind(m, a[1]); i >= 0 {
				v := copyVal(m.entries[i].v)
				in.mapDelete(m, a[1])
				return Tuple{v, in.tt.Bool(true)}
			}
			return Tuple{nilIface, in.tt.Bool(false)}
		}
		intrinsics["(*sync.Map).Delete"] = func(in *Interp, c *frame, fn *ssa.Function, a []Value) Value {
			in.mapDelete(in.syncMapOf(a[0]), a[1])
			return nil
		}
		intrinsics["(*sync.Map).Range"] = func(in *Interp, c *frame, fn *ssa.Function, a []Value) Value {
			m := in.syncMapOf(a[0])
			for _, e := range append([]mapEntry{}, m.entries...) {
				r := in.call(c, nil, a[1], []Value{copyVal(e.k), copyVal(e.v)})
				if t, ok := r.(*Term); ok && t.IsFalse() {
					break
				} else if ok && !t.IsTrue() {
					if !in.forkBool(t) {
						break
					}
				}
			}
			return nil
		}
	})
}
