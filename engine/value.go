package main

import (
	"fmt"
	"go/types"
	"strings"

	"golang.org/x/tools/go/ssa"
)

// Value is the boxed interpreter value.  Dynamic types:
//   *Term        bool and all integer kinds (width from the static type)
//   float64      all float kinds (concrete only)
//   complex128   complex (concrete only)
//   Str          string (concrete or per-byte symbolic)
//   *Value       pointer (nil pointer = (*Value)(nil))
//   Struct       struct ([]Value)
//   Array        array ([]Value)
//   Slice        slice
//   *Map         map (nil map = (*Map)(nil))
//   *Chan        channel
//   Iface        interface value
//   *ssa.Function, *ssa.Builtin, *Closure   function values
//   Tuple        multi-value
//   *Iter        range iterator
//   UnsafePtr    unsafe.Pointer wrapping a value
type Value any

type Struct []Value
type Array []Value
type Tuple []Value

type Slice struct {
	arr  []Value // backing store from the slice's offset: len(arr) == cap
	len  int
	null bool // nil slice
}

type Str struct {
	s    string  // concrete content (valid iff sym == nil)
	sym  []*Term // per-byte terms (width 8) when symbolic
	atom int     // >0: distinct atom id (equality between atoms folds)
}

type Iface struct {
	t types.Type // nil for nil interface
	v Value
}

type Closure struct {
	Fn  *ssa.Function
	Env []Value
}

type mapEntry struct {
	k, v Value
}

type Map struct {
	entries []mapEntry
	kt      types.Type
}

type Chan struct {
	buf    []Value
	cap    int
	closed bool
	// scheduler bookkeeping (-sched): receives completed, receivers currently waiting
	recvSeq     int
	recvWaiting int
}

type UnsafePtr struct {
	v Value // the pointer or other value converted
}

type Iter struct {
	// string iteration
	str  Str
	pos  int
	isSt bool
	// map iteration
	m    *Map
	keys []mapEntry
	idx  int
}

type Poison struct{ why string }

func (s Str) Len() int {
	if s.sym != nil {
		return len(s.sym)
	}
	return len(s.s)
}

func (s Str) IsConcrete() bool { return s.sym == nil }

func mkStr(s string) Str { return Str{s: s} }

// bytesOf returns per-byte terms.
func (in *Interp) strBytes(s Str) []*Term {
	if s.sym != nil {
		return s.sym
	}
	out := make([]*Term, len(s.s))
	for i := 0; i < len(s.s); i++ {
		out[i] = in.tt.Const(8, uint64(s.s[i]))
	}
	return out
}

// normStr converts an all-constant symbolic string into a concrete one.
func normStr(b []*Term, atom int) Str {
	allc := true
	for _, t := range b {
		if t.op != OpConst {
			allc = false
			break
		}
	}
	if allc {
		bs := make([]byte, len(b))
		for i, t := range b {
			bs[i] = byte(t.val)
		}
		return Str{s: string(bs)}
	}
	return Str{sym: b, atom: atom}
}

// ---------------------------------------------------------------- zero values

func (in *Interp) zero(t types.Type) Value {
	switch t := t.(type) {
	case *types.Basic:
		if t.Kind() == types.UntypedNil {
			panic("untyped nil has no zero value")
		}
		if t.Info()&types.IsUntyped != 0 {
			t = types.Default(t).(*types.Basic)
		}
		switch {
		case t.Kind() == types.Bool:
			return in.tt.Bool(false)
		case t.Info()&types.IsInteger != 0:
			return in.tt.Const(in.width(t), 0)
		case t.Info()&types.IsFloat != 0:
			return float64(0)
		case t.Info()&types.IsComplex != 0:
			return complex128(0)
		case t.Kind() == types.String:
			return Str{}
		case t.Kind() == types.UnsafePointer:
			return UnsafePtr{}
		}
		panic(fmt.Sprint("zero for unexpected basic type: ", t))
	case *types.Pointer:
		return (*Value)(nil)
	case *types.Array:
		a := make(Array, t.Len())
		for i := range a {
			a[i] = in.zero(t.Elem())
		}
		return a
	case *types.Named, *types.Alias:
		return in.zero(t.Underlying())
	case *types.Interface:
		return Iface{}
	case *types.Slice:
		return Slice{null: true}
	case *types.Struct:
		s := make(Struct, t.NumFields())
		for i := range s {
			s[i] = in.zero(t.Field(i).Type())
		}
		return s
	case *types.Tuple:
		if t.Len() == 1 {
			return in.zero(t.At(0).Type())
		}
		s := make(Tuple, t.Len())
		for i := range s {
			s[i] = in.zero(t.At(i).Type())
		}
		return s
	case *types.Chan:
		return (*Chan)(nil)
	case *types.Map:
		return (*Map)(nil)
	case *types.Signature:
		return (*ssa.Function)(nil)
	case *types.TypeParam:
		panic(unsupported("zero of type parameter " + t.String()))
	}
	panic(fmt.Sprint("zero: unexpected ", t))
}

func (in *Interp) width(t types.Type) int {
	b, ok := t.Underlying().(*types.Basic)
	if !ok {
		panic(fmt.Sprintf("width of non-basic %s", t))
	}
	switch b.Kind() {
	case types.Int8, types.Uint8:
		return 8
	case types.Int16, types.Uint16:
		return 16
	case types.Int32, types.Uint32:
		return 32
	case types.Int64, types.Uint64, types.Int, types.Uint, types.Uintptr, types.UntypedInt, types.UntypedRune:
		return 64
	case types.Bool, types.UntypedBool:
		return 0
	}
	panic(fmt.Sprintf("width of %s", t))
}

func isSigned(t types.Type) bool {
	b, ok := t.Underlying().(*types.Basic)
	if !ok {
		return false
	}
	return b.Info()&types.IsInteger != 0 && b.Info()&types.IsUnsigned == 0
}

func isInteger(t types.Type) bool {
	b, ok := t.Underlying().(*types.Basic)
	return ok && b.Info()&types.IsInteger != 0
}

func isFloat(t types.Type) bool {
	b, ok := t.Underlying().(*types.Basic)
	return ok && b.Info()&types.IsFloat != 0
}

func isString(t types.Type) bool {
	b, ok := t.Underlying().(*types.Basic)
	return ok && b.Info()&types.IsString != 0
}

func isBool(t types.Type) bool {
	b, ok := t.Underlying().(*types.Basic)
	return ok && b.Info()&types.IsBoolean != 0
}

// ---------------------------------------------------------------- load/store (aggregate copy)

func copyVal(v Value) Value {
	switch v := v.(type) {
	case Struct:
		a := make(Struct, len(v))
		for i := range v {
			a[i] = copyVal(v[i])
		}
		return a
	case Array:
		a := make(Array, len(v))
		for i := range v {
			a[i] = copyVal(v[i])
		}
		return a
	}
	return v
}

func load(addr *Value) Value { return copyVal(*addr) }

func store(addr *Value, v Value) {
	switch rhs := v.(type) {
	case Struct:
		lhs, ok := (*addr).(Struct)
		if !ok || len(lhs) != len(rhs) {
			*addr = copyVal(v)
			return
		}
		for i := range lhs {
			store(&lhs[i], rhs[i])
		}
	case Array:
		lhs, ok := (*addr).(Array)
		if !ok || len(lhs) != len(rhs) {
			*addr = copyVal(v)
			return
		}
		for i := range lhs {
			store(&lhs[i], rhs[i])
		}
	default:
		*addr = v
	}
}

// ---------------------------------------------------------------- equality

// eqTerm returns a Bool term for Go's == on values of static type t.
func (in *Interp) eqTerm(t types.Type, x, y Value) *Term {
	tt := in.tt
	switch x := x.(type) {
	case *Term:
		return tt.Eq(x, y.(*Term))
	case FloatInt:
		a, b, _ := in.floatIntPair(x, y)
		return tt.Eq(a, b)
	case float64:
		if _, isFI := y.(FloatInt); isFI {
			a, b, _ := in.floatIntPair(x, y)
			return tt.Eq(a, b)
		}
		return tt.Bool(x == y.(float64))
	case complex128:
		return tt.Bool(x == y.(complex128))
	case Str:
		return in.strEq(x, y.(Str))
	case *Value:
		return tt.Bool(x == y.(*Value))
	case *Chan:
		return tt.Bool(x == y.(*Chan))
	case *Map:
		return tt.Bool(x == y.(*Map))
	case UnsafePtr:
		yy := y.(UnsafePtr)
		xp, _ := x.v.(*Value)
		yp, _ := yy.v.(*Value)
		return tt.Bool(xp == yp)
	case Struct:
		ys := y.(Struct)
		st := t.Underlying().(*types.Struct)
		r := tt.tTrue
		for i := range x {
			if st.Field(i).Name() == "_" {
				continue
			}
			r = tt.And(r, in.eqTerm(st.Field(i).Type(), x[i], ys[i]))
			if r.IsFalse() {
				return r
			}
		}
		return r
	case Array:
		ya := y.(Array)
		et := t.Underlying().(*types.Array).Elem()
		r := tt.tTrue
		for i := range x {
			r = tt.And(r, in.eqTerm(et, x[i], ya[i]))
			if r.IsFalse() {
				return r
			}
		}
		return r
	case Iface:
		yi := y.(Iface)
		if x.t == nil || yi.t == nil {
			return tt.Bool(x.t == nil && yi.t == nil)
		}
		if !types.Identical(x.t, yi.t) {
			return tt.tFalse
		}
		return in.eqTerm(x.t, x.v, yi.v)
	case Slice:
		// only comparable to nil; handled by caller
		panic(targetPanic{v: in.runtimeErr("comparing uncomparable type " + t.String())})
	case *ssa.Function, *Closure, *ssa.Builtin:
		panic(targetPanic{v: in.runtimeErr("comparing uncomparable type " + t.String())})
	}
	panic(unsupported(fmt.Sprintf("eqTerm on %T", x)))
}

func (in *Interp) strEq(x, y Str) *Term {
	tt := in.tt
	if x.Len() != y.Len() {
		return tt.tFalse
	}
	if x.sym == nil && y.sym == nil {
		return tt.Bool(x.s == y.s)
	}
	if x.atom > 0 && y.atom > 0 {
		return tt.Bool(x.atom == y.atom)
	}
	xb, yb := in.strBytes(x), in.strBytes(y)
	r := tt.tTrue
	for i := range xb {
		r = tt.And(r, tt.Eq(xb[i], yb[i]))
		if r.IsFalse() {
			return r
		}
	}
	return r
}

// strLess returns x < y (lexicographic, bytewise).
func (in *Interp) strLess(x, y Str) *Term {
	tt := in.tt
	if x.sym == nil && y.sym == nil {
		return tt.Bool(x.s < y.s)
	}
	xb, yb := in.strBytes(x), in.strBytes(y)
	n := len(xb)
	if len(yb) < n {
		n = len(yb)
	}
	// tail: all common bytes equal -> shorter is less
	r := tt.Bool(len(xb) < len(yb))
	for i := n - 1; i >= 0; i-- {
		lt := tt.Cmp(OpBvUlt, xb[i], yb[i])
		eq := tt.Eq(xb[i], yb[i])
		r = tt.Or(lt, tt.And(eq, r))
	}
	return r
}

// ---------------------------------------------------------------- misc

type unsupportedErr struct{ msg string }

func unsupported(msg string) unsupportedErr { return unsupportedErr{msg} }

type targetPanic struct{ v Value }

type pathEnd struct {
	kind string // "assume", "infeasible", "budget", "deadlock", "exit", "fatal"
	msg  string
}

func describe(v Value) string {
	var sb strings.Builder
	describeTo(&sb, v, 3)
	return sb.String()
}

func describeTo(sb *strings.Builder, v Value, depth int) {
	if depth == 0 {
		sb.WriteString("…")
		return
	}
	switch v := v.(type) {
	case nil:
		sb.WriteString("<nil>")
	case *Term:
		sb.WriteString(v.String())
	case Str:
		if v.sym == nil {
			fmt.Fprintf(sb, "%q", v.s)
		} else {
			fmt.Fprintf(sb, "str[%d]{", len(v.sym))
			for i, b := range v.sym {
				if i > 0 {
					sb.WriteByte(' ')
				}
				sb.WriteString(b.String())
			}
			sb.WriteString("}")
		}
	case Struct:
		sb.WriteString("{")
		for i, e := range v {
			if i > 0 {
				sb.WriteString(" ")
			}
			describeTo(sb, e, depth-1)
		}
		sb.WriteString("}")
	case Array:
		sb.WriteString("[")
		for i, e := range v {
			if i > 0 {
				sb.WriteString(" ")
			}
			describeTo(sb, e, depth-1)
		}
		sb.WriteString("]")
	case Slice:
		sb.WriteString("[")
		for i := 0; i < v.len; i++ {
			if i > 0 {
				sb.WriteString(" ")
			}
			describeTo(sb, v.arr[i], depth-1)
		}
		sb.WriteString("]")
	case Iface:
		if v.t == nil {
			sb.WriteString("nil-iface")
		} else {
			fmt.Fprintf(sb, "(%s)", v.t)
			describeTo(sb, v.v, depth-1)
		}
	case *Value:
		if v == nil {
			sb.WriteString("nil-ptr")
		} else {
			sb.WriteString("&")
			describeTo(sb, *v, depth-1)
		}
	default:
		fmt.Fprintf(sb, "<%T>", v)
	}
}
