package main

import (
	"fmt"
	"go/token"
	"go/types"
	"math"
	"math/bits"
	"os"
	"strconv"
	"strings"

	"golang.org/x/tools/go/ssa"
)

const tokenLSS = token.LSS

type intrinsic func(in *Interp, caller *frame, fn *ssa.Function, args []Value) Value

var intrinsics map[string]intrinsic

const rtPkg = "github.com/anyproto/any-sync/internal/verifrt"

func noopPkg(path string) bool {
	switch {
	case strings.HasPrefix(path, "go.uber.org/zap"),
		path == "github.com/anyproto/any-sync/app/logger",
		path == "github.com/anyproto/any-sync/app/debugstat",
		path == "github.com/anyproto/any-sync/metric",
		path == "github.com/anyproto/any-sync/util/debug",
		strings.HasPrefix(path, "github.com/prometheus/"),
		path == "log":
		return true
	}
	return false
}

func (in *Interp) isHarnessFn(fn *ssa.Function) bool {
	for fn.Parent() != nil {
		fn = fn.Parent()
	}
	if fn.Pkg != nil && fn.Pkg.Pkg.Path() == rtPkg {
		return true
	}
	p := fn.Pos()
	if p == token.NoPos {
		if fn.Origin() != nil {
			p = fn.Origin().Pos()
		}
	}
	if p == token.NoPos {
		return false
	}
	f := in.prog.Fset.Position(p).Filename
	i := strings.LastIndexByte(f, '/')
	return strings.HasPrefix(f[i+1:], "zz_verif")
}

func tupleOf(vs ...Value) Value { return Tuple(vs) }

func (in *Interp) symBytesSlice(n int, tag string) (Slice, []*Term) {
	arr := make([]Value, n)
	ts := make([]*Term, n)
	for i := range arr {
		t := in.freshVar(tag, 8)
		arr[i] = t
		ts[i] = t
	}
	return Slice{arr: arr, len: n}, ts
}

// flattenArgs converts UF arguments (ints, bools, strings, byte slices) into terms.
func (in *Interp) flattenArgs(vs []Value) []*Term {
	var out []*Term
	for _, v := range vs {
		switch v := v.(type) {
		case *Term:
			out = append(out, v)
		case Str:
			bs := in.strBytes(v)
			out = append(out, in.packBytes(bs)...)
		case Slice:
			var bs []*Term
			for i := 0; i < v.len; i++ {
				switch e := v.arr[i].(type) {
				case *Term:
					bs = append(bs, e)
				case Iface:
					out = append(out, in.packBytes(bs)...)
					bs = nil
					out = append(out, in.flattenArgs([]Value{e.v})...)
				default:
					panic(unsupported(fmt.Sprintf("UF argument slice element %T", e)))
				}
			}
			out = append(out, in.packBytes(bs)...)
		case Iface:
			if v.t != nil {
				out = append(out, in.flattenArgs([]Value{v.v})...)
			}
		case Array:
			var bs []*Term
			for _, e := range v {
				bs = append(bs, e.(*Term))
			}
			out = append(out, in.packBytes(bs)...)
		default:
			panic(unsupported(fmt.Sprintf("UF argument %T", v)))
		}
	}
	return out
}

// packBytes packs a byte sequence into one term of width 8n, preceded by
// nothing (the arity/width is part of the UF's monomorphic name).
func (in *Interp) packBytes(bs []*Term) []*Term {
	if len(bs) == 0 {
		return nil
	}
	var acc *Term
	for _, b := range bs {
		if acc == nil {
			acc = b
		} else {
			acc = in.tt.Concat(acc, b)
		}
	}
	return []*Term{acc}
}

func (in *Interp) ufApply(name string, w int, args []Value) *Term {
	ts := in.flattenArgs(args)
	// monomorphic name: widths of the arguments
	var sb strings.Builder
	sb.WriteString("uf_")
	sb.WriteString(name)
	for _, t := range ts {
		fmt.Fprintf(&sb, "_%d", t.w)
	}
	app := in.tt.UF(sb.String(), w, ts...)
	for _, a := range in.ufRecs {
		if a.app == app {
			return app
		}
	}
	in.ufRecs = append(in.ufRecs, ufRecord{name: name, args: append([]Value{}, args...), app: app})
	return app
}

func varargs(v Value) []Value {
	s, _ := v.(Slice)
	return s.arr[:s.len]
}

func init() {
	z := func(in *Interp, caller *frame, fn *ssa.Function, args []Value) Value {
		return zeroResults(in, fn.Signature)
	}
	nondet := func(tag string, w int) intrinsic {
		return func(in *Interp, caller *frame, fn *ssa.Function, args []Value) Value {
			t := in.freshVar(tag, w)
			in.addDraw(Draw{Kind: tag, W: w, T: t})
			return t
		}
	}
	intrinsics = map[string]intrinsic{
		rtPkg + ".Bool": nondet("bool", 0),
		rtPkg + ".U8":   nondet("u8", 8),
		rtPkg + ".U16":  nondet("u16", 16),
		rtPkg + ".U32":  nondet("u32", 32),
		rtPkg + ".U64":  nondet("u64", 64),
		rtPkg + ".I32":  nondet("i32", 32),
		rtPkg + ".I64":  nondet("i64", 64),
		rtPkg + ".Int":  nondet("int", 64),
		rtPkg + ".IntRange": func(in *Interp, caller *frame, fn *ssa.Function, args []Value) Value {
			lo, hi := args[0].(*Term), args[1].(*Term)
			t := in.freshVar("int", 64)
			in.addDraw(Draw{Kind: "int", W: 64, T: t})
			in.assume(in.tt.And(in.tt.Cmp(OpBvSle, lo, t), in.tt.Cmp(OpBvSle, t, hi)))
			return t
		},
		rtPkg + ".Bytes": func(in *Interp, caller *frame, fn *ssa.Function, args []Value) Value {
			n := in.concInt(args[0])
			s, ts := in.symBytesSlice(n, "b")
			in.addDraw(Draw{Kind: "bytes", Ts: ts})
			return s
		},
		rtPkg + ".String": func(in *Interp, caller *frame, fn *ssa.Function, args []Value) Value {
			n := in.concInt(args[0])
			_, ts := in.symBytesSlice(n, "s")
			in.addDraw(Draw{Kind: "bytes", Ts: ts})
			if n == 0 {
				return Str{}
			}
			return Str{sym: ts}
		},
		rtPkg + ".Atoms": func(in *Interp, caller *frame, fn *ssa.Function, args []Value) Value {
			n := in.concInt(args[0])
			l := in.concInt(args[1])
			arr := make([]Value, n)
			var all []Str
			for i := 0; i < n; i++ {
				_, ts := in.symBytesSlice(l, "a")
				in.addDraw(Draw{Kind: "bytes", Ts: ts})
				in.natoms++
				s := Str{sym: ts, atom: in.natoms}
				arr[i] = s
				all = append(all, s)
			}
			// pairwise distinct
			for i := 0; i < n; i++ {
				for j := i + 1; j < n; j++ {
					ne := in.tt.tFalse
					for k := 0; k < l; k++ {
						ne = in.tt.Or(ne, in.tt.Not(in.tt.Eq(all[i].sym[k], all[j].sym[k])))
					}
					in.assume(ne)
				}
			}
			return Slice{arr: arr, len: n}
		},
		rtPkg + ".Choose": func(in *Interp, caller *frame, fn *ssa.Function, args []Value) Value {
			n := in.concInt(args[0])
			return in.tt.Const(64, uint64(in.choose(n)))
		},
		rtPkg + ".Assume": func(in *Interp, caller *frame, fn *ssa.Function, args []Value) Value {
			in.assume(args[0].(*Term))
			return nil
		},
		rtPkg + ".Assert": func(in *Interp, caller *frame, fn *ssa.Function, args []Value) Value {
			in.assert(args[0].(*Term), in.concStr(args[1].(Str)), caller)
			return nil
		},
		rtPkg + ".Reach": func(in *Interp, caller *frame, fn *ssa.Function, args []Value) Value {
			id := in.concStr(args[0].(Str))
			in.reached[id] = true
			return nil
		},
		rtPkg + ".Observe": func(in *Interp, caller *frame, fn *ssa.Function, args []Value) Value {
			return nil
		},
		rtPkg + ".Concretize": func(in *Interp, caller *frame, fn *ssa.Function, args []Value) Value {
			t := args[0].(*Term)
			return in.tt.Const(t.w, in.concretize(t))
		},
		rtPkg + ".ConcretizeString": func(in *Interp, caller *frame, fn *ssa.Function, args []Value) Value {
			return mkStr(in.concStr(args[0].(Str)))
		},
		rtPkg + ".IsSymbolic": func(in *Interp, caller *frame, fn *ssa.Function, args []Value) Value {
			return in.tt.Bool(true)
		},
		rtPkg + ".Param": func(in *Interp, caller *frame, fn *ssa.Function, args []Value) Value {
			name := in.concStr(args[0].(Str))
			if v, ok := in.ex.cfg.Params[name]; ok {
				return in.tt.Const(64, uint64(int64(v)))
			}
			return args[1]
		},
		rtPkg + ".Replace": func(in *Interp, caller *frame, fn *ssa.Function, args []Value) Value {
			name := in.concStr(args[0].(Str))
			f := args[1].(Iface)
			in.replace[name] = f.v
			return nil
		},
		rtPkg + ".UF64": func(in *Interp, caller *frame, fn *ssa.Function, args []Value) Value {
			return in.ufApply(in.concStr(args[0].(Str)), 64, varargs(args[1]))
		},
		rtPkg + ".UF8": func(in *Interp, caller *frame, fn *ssa.Function, args []Value) Value {
			return in.ufApply(in.concStr(args[0].(Str)), 8, varargs(args[1]))
		},
		rtPkg + ".UFBool": func(in *Interp, caller *frame, fn *ssa.Function, args []Value) Value {
			return in.ufApply(in.concStr(args[0].(Str)), 0, varargs(args[1]))
		},
		rtPkg + ".UFBytes": func(in *Interp, caller *frame, fn *ssa.Function, args []Value) Value {
			name := in.concStr(args[0].(Str))
			n := in.concInt(args[1])
			arr := make([]Value, n)
			for i := range arr {
				arr[i] = in.ufApply(fmt.Sprintf("%s_b%d", name, i), 8, varargs(args[2]))
			}
			return Slice{arr: arr, len: n}
		},
		rtPkg + ".Unsupported": func(in *Interp, caller *frame, fn *ssa.Function, args []Value) Value {
			panic(unsupported("harness: " + in.concStr(args[0].(Str))))
		},
		rtPkg + ".Debug": func(in *Interp, caller *frame, fn *ssa.Function, args []Value) Value {
			if in.ex.cfg.Verbose {
				fmt.Fprintf(os.Stderr, "DEBUG %s: %s\n", describe(args[0]), describe(args[1]))
			}
			return nil
		},
		rtPkg + ".AnyOf": func(in *Interp, caller *frame, fn *ssa.Function, args []Value) Value {
			r := in.tt.tFalse
			for _, v := range varargs(args[0]) {
				r = in.tt.Or(r, v.(*Term))
			}
			return r
		},
		rtPkg + ".AllOf": func(in *Interp, caller *frame, fn *ssa.Function, args []Value) Value {
			r := in.tt.tTrue
			for _, v := range varargs(args[0]) {
				r = in.tt.And(r, v.(*Term))
			}
			return r
		},
		rtPkg + ".IteInt": func(in *Interp, caller *frame, fn *ssa.Function, args []Value) Value {
			return in.tt.Ite(args[0].(*Term), args[1].(*Term), args[2].(*Term))
		},
		rtPkg + ".StubBool": func(in *Interp, caller *frame, fn *ssa.Function, args []Value) Value {
			t := in.freshVar("bool", 0)
			in.draws = append(in.draws, Draw{Kind: "bool", T: t, Stub: true})
			return t
		},
		rtPkg + ".StubU64": func(in *Interp, caller *frame, fn *ssa.Function, args []Value) Value {
			t := in.freshVar("u64", 64)
			in.draws = append(in.draws, Draw{Kind: "u64", W: 64, T: t, Stub: true})
			return t
		},
		rtPkg + ".StubBytes": func(in *Interp, caller *frame, fn *ssa.Function, args []Value) Value {
			n := in.concInt(args[0])
			s, ts := in.symBytesSlice(n, "b")
			in.draws = append(in.draws, Draw{Kind: "bytes", Ts: ts, Stub: true})
			return s
		},
		rtPkg + ".Steps": func(in *Interp, caller *frame, fn *ssa.Function, args []Value) Value {
			return in.tt.Const(64, uint64(in.steps))
		},

		// ---- sync
		// without -sched locks and wait groups are no-ops (one goroutine); with it they are scheduling points
		"(*sync.Mutex).Lock": func(in *Interp, c *frame, fn *ssa.Function, a []Value) Value {
			in.lockAcquire(a[0].(*Value), true, "Mutex.Lock")
			return nil
		},
		"(*sync.Mutex).Unlock": func(in *Interp, c *frame, fn *ssa.Function, a []Value) Value {
			in.lockRelease(a[0].(*Value), true)
			return nil
		},
		"(*sync.Mutex).TryLock": func(in *Interp, c *frame, fn *ssa.Function, a []Value) Value {
			return in.tt.Bool(in.lockTry(a[0].(*Value), true))
		},
		"(*sync.RWMutex).Lock": func(in *Interp, c *frame, fn *ssa.Function, a []Value) Value {
			in.lockAcquire(a[0].(*Value), true, "RWMutex.Lock")
			return nil
		},
		"(*sync.RWMutex).Unlock": func(in *Interp, c *frame, fn *ssa.Function, a []Value) Value {
			in.lockRelease(a[0].(*Value), true)
			return nil
		},
		"(*sync.RWMutex).RLock": func(in *Interp, c *frame, fn *ssa.Function, a []Value) Value {
			in.lockAcquire(a[0].(*Value), false, "RWMutex.RLock")
			return nil
		},
		"(*sync.RWMutex).RUnlock": func(in *Interp, c *frame, fn *ssa.Function, a []Value) Value {
			in.lockRelease(a[0].(*Value), false)
			return nil
		},
		"(*sync.RWMutex).TryLock": func(in *Interp, c *frame, fn *ssa.Function, a []Value) Value {
			return in.tt.Bool(in.lockTry(a[0].(*Value), true))
		},
		"(*sync.WaitGroup).Add": func(in *Interp, c *frame, fn *ssa.Function, a []Value) Value {
			if in.sc.on {
				in.wgAdd(a[0].(*Value), in.concInt(a[1]))
			}
			return nil
		},
		"(*sync.WaitGroup).Done": func(in *Interp, c *frame, fn *ssa.Function, a []Value) Value {
			in.wgAdd(a[0].(*Value), -1)
			return nil
		},
		"(*sync.WaitGroup).Wait": func(in *Interp, c *frame, fn *ssa.Function, a []Value) Value {
			in.wgWait(a[0].(*Value))
			return nil
		},
		"runtime.Gosched": func(in *Interp, c *frame, fn *ssa.Function, a []Value) Value {
			in.yield(nil, "Gosched")
			return nil
		},
		rtPkg + ".Sched": func(in *Interp, c *frame, fn *ssa.Function, a []Value) Value {
			in.yield(nil, "Sched")
			return nil
		},
		// FIPS 140 service indicator (goroutine-local bookkeeping of the standard library's crypto): irrelevant here
		"crypto/internal/fips140.RecordApproved":    z,
		"crypto/internal/fips140.RecordNonApproved": z,
		rtPkg + ".Bounded": func(in *Interp, c *frame, fn *ssa.Function, a []Value) Value {
			// input-controlled allocation is caught where it happens (MakeSlice / append): just run the body
			in.call(c, nil, a[1], nil)
			return nil
		},
		rtPkg + ".Atomic": func(in *Interp, c *frame, fn *ssa.Function, a []Value) Value {
			// one step of harness bookkeeping: scheduling is switched off while it runs
			on := in.sc.on
			in.sc.on = false
			defer func() { in.sc.on = on }()
			in.call(c, nil, a[0], nil)
			return nil
		},
		rtPkg + ".Settle": func(in *Interp, c *frame, fn *ssa.Function, a []Value) Value {
			in.settle()
			return nil
		},
		"(*sync.WaitGroup).Go": func(in *Interp, c *frame, fn *ssa.Function, a []Value) Value {
			return in.call(c, nil, a[1], nil)
		},
		"(*sync.Once).Do": func(in *Interp, c *frame, fn *ssa.Function, a []Value) Value {
			p := a[0].(*Value)
			in.checkNilPtr(p)
			st := (*p).(Struct)
			// field layout differs between Go versions: find the first integer-ish cell
			key := "once"
			_ = key
			done := in.onceDone[p]
			if !done {
				in.onceDone[p] = true
				in.call(c, nil, a[1], nil)
			}
			_ = st
			return nil
		},
		"(*sync.Pool).Get": func(in *Interp, c *frame, fn *ssa.Function, a []Value) Value {
			p := a[0].(*Value)
			in.checkNilPtr(p)
			if lst := in.pools[p]; len(lst) > 0 {
				v := lst[len(lst)-1]
				in.pools[p] = lst[:len(lst)-1]
				return v
			}
			st := (*p).(Struct)
			// New is the last field
			newFn := st[len(st)-1]
			if n, _ := isNilValue(newFn); n {
				return Iface{}
			}
			return in.call(c, nil, newFn, nil)
		},
		"(*sync.Pool).Put": func(in *Interp, c *frame, fn *ssa.Function, a []Value) Value {
			p := a[0].(*Value)
			in.pools[p] = append(in.pools[p], a[1])
			return nil
		},
		"(*sync.Cond).Wait": func(in *Interp, c *frame, fn *ssa.Function, a []Value) Value {
			panic(pathEnd{kind: "deadlock", msg: "sync.Cond.Wait (single goroutine)"})
		},
		"(*sync.Cond).Signal":    z,
		"(*sync.Cond).Broadcast": z,
		"runtime.KeepAlive":      z,
		"runtime.SetFinalizer":   z,
		"runtime.GC":             z,
		"runtime/debug.ReadBuildInfo": func(in *Interp, c *frame, fn *ssa.Function, a []Value) Value { return Tuple{(*Value)(nil), in.tt.Bool(false)} },
		"time.Sleep": func(in *Interp, c *frame, fn *ssa.Function, a []Value) Value { in.yield(nil, "time.Sleep"); return nil },
		"os.Exit": func(in *Interp, c *frame, fn *ssa.Function, a []Value) Value {
			panic(pathEnd{kind: "fatal", msg: "os.Exit"})
		},
		"log.Fatal": func(in *Interp, c *frame, fn *ssa.Function, a []Value) Value {
			panic(pathEnd{kind: "fatal", msg: "log.Fatal"})
		},
		"log.Fatalf": func(in *Interp, c *frame, fn *ssa.Function, a []Value) Value {
			panic(pathEnd{kind: "fatal", msg: "log.Fatalf"})
		},
		"(*go.uber.org/zap.Logger).Fatal": func(in *Interp, c *frame, fn *ssa.Function, a []Value) Value {
			panic(pathEnd{kind: "fatal", msg: "zap Fatal: " + describe(a[1])})
		},
		"(*go.uber.org/zap.SugaredLogger).Fatalf": func(in *Interp, c *frame, fn *ssa.Function, a []Value) Value {
			panic(pathEnd{kind: "fatal", msg: "zap Fatalf: " + describe(a[1])})
		},
		"(github.com/anyproto/any-sync/app/logger.CtxLogger).Fatal": func(in *Interp, c *frame, fn *ssa.Function, a []Value) Value {
			panic(pathEnd{kind: "fatal", msg: "log Fatal"})
		},

		// ---- time
		"time.Now": func(in *Interp, c *frame, fn *ssa.Function, a []Value) Value {
			// wall=0, ext=seconds since year 1, loc=nil : a fixed instant unless replaced
			t := in.zero(fn.Signature.Results().At(0).Type()).(Struct)
			t[1] = in.tt.Const(64, uint64(63800000000+in.clock))
			in.clock++
			return t
		},
		"time.runtimeNano": func(in *Interp, c *frame, fn *ssa.Function, a []Value) Value {
			in.clock++
			return in.tt.Const(64, uint64(in.clock*1000000000))
		},

		// ---- math/bits (pure Go bodies exist, but intrinsics give compact terms)
		// ---- float bit patterns: concrete floats only (a symbolic float is a FloatInt and has no bit-level model)
		"math.Float64bits": func(in *Interp, c *frame, fn *ssa.Function, a []Value) Value {
			f, ok := a[0].(float64)
			if !ok {
				panic(unsupported("math.Float64bits of a symbolic float"))
			}
			return in.tt.Const(64, math.Float64bits(f))
		},
		"math.Float64frombits": func(in *Interp, c *frame, fn *ssa.Function, a []Value) Value {
			t := a[0].(*Term)
			if !t.IsConst() {
				panic(unsupported("math.Float64frombits of a symbolic word"))
			}
			return math.Float64frombits(t.val)
		},
		"math/bits.Len64": func(in *Interp, c *frame, fn *ssa.Function, a []Value) Value {
			return in.bitsLen(a[0].(*Term))
		},
		"math/bits.Len": func(in *Interp, c *frame, fn *ssa.Function, a []Value) Value {
			return in.bitsLen(a[0].(*Term))
		},
		"math/bits.Len32": func(in *Interp, c *frame, fn *ssa.Function, a []Value) Value {
			return in.bitsLen(in.tt.Zext(a[0].(*Term), 64))
		},
		"math/bits.LeadingZeros64": func(in *Interp, c *frame, fn *ssa.Function, a []Value) Value {
			return in.tt.Bin(OpBvSub, in.tt.Const(64, 64), in.bitsLen(a[0].(*Term)).(*Term))
		},
		"math/bits.TrailingZeros64": func(in *Interp, c *frame, fn *ssa.Function, a []Value) Value {
			x := a[0].(*Term)
			if x.op == OpConst {
				return in.tt.Const(64, uint64(bits.TrailingZeros64(x.val)))
			}
			panic(unsupported("TrailingZeros64 symbolic"))
		},

		// ---- internal/bytealg etc. (assembly in the real runtime)
		"internal/bytealg.IndexByteString": func(in *Interp, c *frame, fn *ssa.Function, a []Value) Value {
			return in.indexByte(in.strBytes(a[0].(Str)), a[1].(*Term))
		},
		"internal/bytealg.IndexByte": func(in *Interp, c *frame, fn *ssa.Function, a []Value) Value {
			return in.indexByte(sliceBytes(a[0].(Slice)), a[1].(*Term))
		},
		"internal/bytealg.CountString": func(in *Interp, c *frame, fn *ssa.Function, a []Value) Value {
			return in.countByte(in.strBytes(a[0].(Str)), a[1].(*Term))
		},
		"internal/bytealg.Count": func(in *Interp, c *frame, fn *ssa.Function, a []Value) Value {
			return in.countByte(sliceBytes(a[0].(Slice)), a[1].(*Term))
		},
		"internal/bytealg.Equal": func(in *Interp, c *frame, fn *ssa.Function, a []Value) Value {
			return in.bytesEq(sliceBytes(a[0].(Slice)), sliceBytes(a[1].(Slice)))
		},
		"internal/bytealg.Compare": func(in *Interp, c *frame, fn *ssa.Function, a []Value) Value {
			return in.bytesCompare(sliceBytes(a[0].(Slice)), sliceBytes(a[1].(Slice)))
		},
		"internal/bytealg.CompareString": func(in *Interp, c *frame, fn *ssa.Function, a []Value) Value {
			return in.bytesCompare(in.strBytes(a[0].(Str)), in.strBytes(a[1].(Str)))
		},
		"internal/bytealg.MakeNoZero": func(in *Interp, c *frame, fn *ssa.Function, a []Value) Value {
			n := in.concInt(a[0])
			arr := make([]Value, n)
			for i := range arr {
				arr[i] = in.tt.Const(8, 0)
			}
			return Slice{arr: arr, len: n}
		},
		"internal/bytealg.IndexString": func(in *Interp, c *frame, fn *ssa.Function, a []Value) Value {
			return in.indexString(in.strBytes(a[0].(Str)), in.strBytes(a[1].(Str)))
		},
		"internal/bytealg.Index": func(in *Interp, c *frame, fn *ssa.Function, a []Value) Value {
			return in.indexString(sliceBytes(a[0].(Slice)), sliceBytes(a[1].(Slice)))
		},
		"strings.Index": func(in *Interp, c *frame, fn *ssa.Function, a []Value) Value {
			return in.indexString(in.strBytes(a[0].(Str)), in.strBytes(a[1].(Str)))
		},
		"internal/stringslite.Index": func(in *Interp, c *frame, fn *ssa.Function, a []Value) Value {
			return in.indexString(in.strBytes(a[0].(Str)), in.strBytes(a[1].(Str)))
		},
		"bytes.Index": func(in *Interp, c *frame, fn *ssa.Function, a []Value) Value {
			return in.indexString(sliceBytes(a[0].(Slice)), sliceBytes(a[1].(Slice)))
		},
		"strings.Compare": func(in *Interp, c *frame, fn *ssa.Function, a []Value) Value {
			return in.bytesCompare(in.strBytes(a[0].(Str)), in.strBytes(a[1].(Str)))
		},
		"bytes.Compare": func(in *Interp, c *frame, fn *ssa.Function, a []Value) Value {
			return in.bytesCompare(sliceBytes(a[0].(Slice)), sliceBytes(a[1].(Slice)))
		},
		"cmp.Compare[string]": func(in *Interp, c *frame, fn *ssa.Function, a []Value) Value {
			return in.bytesCompare(in.strBytes(a[0].(Str)), in.strBytes(a[1].(Str)))
		},
		"bytes.Equal": func(in *Interp, c *frame, fn *ssa.Function, a []Value) Value {
			return in.bytesEq(sliceBytes(a[0].(Slice)), sliceBytes(a[1].(Slice)))
		},
		"internal/abi.NoEscape":       func(in *Interp, c *frame, fn *ssa.Function, a []Value) Value { return a[0] },
		"internal/abi.Escape":         func(in *Interp, c *frame, fn *ssa.Function, a []Value) Value { return a[0] },
		"internal/race.Enabled":       z,
		"internal/race.Acquire":       z,
		"internal/race.Release":       z,
		"internal/race.ReleaseMerge":  z,
		"internal/race.Disable":       z,
		"internal/race.Enable":        z,
		"internal/race.Read":          z,
		"internal/race.Write":         z,
		"internal/race.ReadRange":     z,
		"internal/race.WriteRange":    z,
		"internal/godebug.(*Setting).Value": func(in *Interp, c *frame, fn *ssa.Function, a []Value) Value {
			return Str{}
		},
		"(*internal/godebug.Setting).Value": func(in *Interp, c *frame, fn *ssa.Function, a []Value) Value {
			return Str{}
		},
		"(*internal/godebug.Setting).IncNonDefault": z,

		// ---- strings.Builder (uses unsafe.String)
		"(*strings.Builder).String": func(in *Interp, c *frame, fn *ssa.Function, a []Value) Value {
			p := a[0].(*Value)
			st := (*p).(Struct)
			buf := st[len(st)-1].(Slice)
			b := make([]*Term, buf.len)
			for i := 0; i < buf.len; i++ {
				b[i] = buf.arr[i].(*Term)
			}
			return normStr(b, 0)
		},
		"(*strings.Builder).copyCheck": z,
		"strings.Clone":                func(in *Interp, c *frame, fn *ssa.Function, a []Value) Value { return a[0] },
		"internal/stringslite.Clone":   func(in *Interp, c *frame, fn *ssa.Function, a []Value) Value { return a[0] },
		"unique.Make[string]":          func(in *Interp, c *frame, fn *ssa.Function, a []Value) Value { panic(unsupported("unique.Make")) },

		// ---- sort.Slice (reflection based in the real library): insertion sort driven by the caller's less
		"sort.Slice":       sortSliceIntrinsic,
		"sort.SliceStable": sortSliceIntrinsic,

		// ---- errors / fmt
		"errors.Is": func(in *Interp, c *frame, fn *ssa.Function, a []Value) Value {
			return in.tt.Bool(in.errorsIs(c, a[0].(Iface), a[1].(Iface), 0))
		},
		"errors.As": func(in *Interp, c *frame, fn *ssa.Function, a []Value) Value {
			return in.tt.Bool(in.errorsAs(c, a[0].(Iface), a[1].(Iface), 0))
		},
		"fmt.Errorf": func(in *Interp, c *frame, fn *ssa.Function, a []Value) Value {
			return in.fmtErrorf(c, a[0].(Str), varargs(a[1]))
		},
		"fmt.Sprintf": func(in *Interp, c *frame, fn *ssa.Function, a []Value) Value {
			return in.sprintf(c, in.concStr(a[0].(Str)), varargs(a[1]))
		},
		"fmt.Sprint": func(in *Interp, c *frame, fn *ssa.Function, a []Value) Value {
			vs := varargs(a[0])
			f := strings.Repeat("%v", len(vs))
			return in.sprintf(c, f, vs)
		},
		"fmt.Sprintln": func(in *Interp, c *frame, fn *ssa.Function, a []Value) Value {
			vs := varargs(a[0])
			f := strings.TrimSpace(strings.Repeat("%v ", len(vs))) + "\n"
			return in.sprintf(c, f, vs)
		},
		"fmt.Println": z, "fmt.Printf": z, "fmt.Print": z, "fmt.Fprintf": z, "fmt.Fprintln": z, "fmt.Fprint": z,

		// ---- strconv fast paths on concrete values are interpreted; nothing here

		// ---- atomics (bodyless)
		"sync/atomic.LoadInt32": atomicLoad, "sync/atomic.LoadInt64": atomicLoad, "sync/atomic.LoadUint32": atomicLoad,
		"sync/atomic.LoadUint64": atomicLoad, "sync/atomic.LoadUintptr": atomicLoad, "sync/atomic.LoadPointer": atomicLoad,
		"sync/atomic.StoreInt32": atomicStore, "sync/atomic.StoreInt64": atomicStore, "sync/atomic.StoreUint32": atomicStore,
		"sync/atomic.StoreUint64": atomicStore, "sync/atomic.StoreUintptr": atomicStore, "sync/atomic.StorePointer": atomicStore,
		"sync/atomic.AddInt32": atomicAdd, "sync/atomic.AddInt64": atomicAdd, "sync/atomic.AddUint32": atomicAdd,
		"sync/atomic.AddUint64": atomicAdd, "sync/atomic.AddUintptr": atomicAdd,
		"sync/atomic.SwapInt32": atomicSwap, "sync/atomic.SwapInt64": atomicSwap, "sync/atomic.SwapUint32": atomicSwap,
		"sync/atomic.SwapUint64": atomicSwap, "sync/atomic.SwapPointer": atomicSwap, "sync/atomic.SwapUintptr": atomicSwap,
		"sync/atomic.CompareAndSwapInt32": atomicCAS, "sync/atomic.CompareAndSwapInt64": atomicCAS,
		"sync/atomic.CompareAndSwapUint32": atomicCAS, "sync/atomic.CompareAndSwapUint64": atomicCAS,
		"sync/atomic.CompareAndSwapPointer": atomicCAS, "sync/atomic.CompareAndSwapUintptr": atomicCAS,
		"sync/atomic.AndInt32": atomicUnsup, "sync/atomic.OrInt32": atomicUnsup,
		"(*sync/atomic.Value).Load": func(in *Interp, c *frame, fn *ssa.Function, a []Value) Value {
			p := a[0].(*Value)
			if v, ok := in.atomicVals[p]; ok {
				return v
			}
			return Iface{}
		},
		"(*sync/atomic.Value).Store": func(in *Interp, c *frame, fn *ssa.Function, a []Value) Value {
			in.atomicVals[a[0].(*Value)] = a[1]
			return nil
		},
	}
}

func atomicUnsup(in *Interp, c *frame, fn *ssa.Function, a []Value) Value {
	panic(unsupported("atomic op " + fn.String()))
}

func atomicLoad(in *Interp, c *frame, fn *ssa.Function, a []Value) Value {
	p := a[0].(*Value)
	in.checkNilPtr(p)
	return load(p)
}

func atomicStore(in *Interp, c *frame, fn *ssa.Function, a []Value) Value {
	p := a[0].(*Value)
	in.checkNilPtr(p)
	store(p, a[1])
	return nil
}

func atomicAdd(in *Interp, c *frame, fn *ssa.Function, a []Value) Value {
	p := a[0].(*Value)
	in.checkNilPtr(p)
	n := in.tt.Bin(OpBvAdd, (*p).(*Term), a[1].(*Term))
	*p = n
	return n
}

func atomicSwap(in *Interp, c *frame, fn *ssa.Function, a []Value) Value {
	p := a[0].(*Value)
	in.checkNilPtr(p)
	old := load(p)
	store(p, a[1])
	return old
}

func atomicCAS(in *Interp, c *frame, fn *ssa.Function, a []Value) Value {
	p := a[0].(*Value)
	in.checkNilPtr(p)
	cur := *p
	var eq *Term
	switch cv := cur.(type) {
	case *Term:
		eq = in.tt.Eq(cv, a[1].(*Term))
	case UnsafePtr:
		ov := a[1].(UnsafePtr)
		cp, _ := cv.v.(*Value)
		op, _ := ov.v.(*Value)
		eq = in.tt.Bool(cp == op)
	default:
		panic(unsupported(fmt.Sprintf("CAS on %T", cur)))
	}
	if in.forkBool(eq) {
		store(p, a[2])
		return in.tt.Bool(true)
	}
	return in.tt.Bool(false)
}

func sliceBytes(s Slice) []*Term {
	out := make([]*Term, s.len)
	for i := 0; i < s.len; i++ {
		out[i] = s.arr[i].(*Term)
	}
	return out
}

func (in *Interp) bitsLen(x *Term) Value {
	tt := in.tt
	if x.op == OpConst {
		return tt.Const(64, uint64(bits.Len64(x.val)))
	}
	// ite chain from the top bit
	r := tt.Const(64, 0)
	for i := 0; i < x.w; i++ {
		bit := tt.Extract(x, i, i)
		r = tt.Ite(tt.Eq(bit, tt.Const(1, 1)), tt.Const(64, uint64(i+1)), r)
	}
	return r
}

func (in *Interp) indexByte(bs []*Term, c *Term) Value {
	tt := in.tt
	r := tt.Const(64, ^uint64(0))
	for i := len(bs) - 1; i >= 0; i-- {
		r = tt.Ite(tt.Eq(bs[i], c), tt.Const(64, uint64(i)), r)
	}
	return r
}

func (in *Interp) countByte(bs []*Term, c *Term) Value {
	tt := in.tt
	r := tt.Const(64, 0)
	for _, b := range bs {
		r = tt.Bin(OpBvAdd, r, tt.Ite(tt.Eq(b, c), tt.Const(64, 1), tt.Const(64, 0)))
	}
	return r
}

func (in *Interp) bytesEq(a, b []*Term) Value {
	tt := in.tt
	if len(a) != len(b) {
		return tt.tFalse
	}
	r := tt.tTrue
	for i := range a {
		r = tt.And(r, tt.Eq(a[i], b[i]))
	}
	return r
}

func (in *Interp) bytesCompare(a, b []*Term) Value {
	tt := in.tt
	n := len(a)
	if len(b) < n {
		n = len(b)
	}
	var r *Term
	switch {
	case len(a) < len(b):
		r = tt.Const(64, ^uint64(0))
	case len(a) > len(b):
		r = tt.Const(64, 1)
	default:
		r = tt.Const(64, 0)
	}
	for i := n - 1; i >= 0; i-- {
		r = tt.Ite(tt.Cmp(OpBvUlt, a[i], b[i]), tt.Const(64, ^uint64(0)),
			tt.Ite(tt.Cmp(OpBvUlt, b[i], a[i]), tt.Const(64, 1), r))
	}
	return r
}

func (in *Interp) indexString(s, sep []*Term) Value {
	tt := in.tt
	n, m := len(s), len(sep)
	if m == 0 {
		return tt.Const(64, 0)
	}
	r := tt.Const(64, ^uint64(0))
	for i := n - m; i >= 0; i-- {
		eq := tt.tTrue
		for k := 0; k < m; k++ {
			eq = tt.And(eq, tt.Eq(s[i+k], sep[k]))
		}
		r = tt.Ite(eq, tt.Const(64, uint64(i)), r)
	}
	return r
}

// ---------------------------------------------------------------- assume / assert

func (in *Interp) assume(c *Term) {
	if c.IsTrue() {
		return
	}
	if c.IsFalse() {
		panic(pathEnd{kind: "assume"})
	}
	if !in.replaying() {
		r, _ := in.solver.Check(in.pc, []*Term{c}, nil)
		if r == Unsat {
			panic(pathEnd{kind: "assume"})
		}
		if r == Unknown {
			in.ex.noteUnknownBranch()
		}
	}
	in.addPC(c)
}

func (in *Interp) assert(c *Term, id string, caller *frame) {
	if in.replaying() {
		// already decided (and counted) by the parent path under the same prefix
		if !c.IsTrue() {
			in.addPCAssumed(c)
		}
		return
	}
	in.ex.noteObligation(id)
	if c.IsTrue() {
		in.ex.noteDischarged(id, true)
		return
	}
	neg := in.tt.Not(c)
	r, _ := in.solver.Check(in.pc, []*Term{neg}, nil)
	switch r {
	case Unsat:
		in.ex.noteDischarged(id, false)
	case Unknown:
		in.ex.noteUnknownObligation(id)
	case Sat:
		in.reportViolation("assert", id, neg, caller)
	}
	in.addPCAssumed(c)
}

// addPCAssumed continues the path under the asserted condition (if possible).
func (in *Interp) addPCAssumed(c *Term) {
	if c.IsFalse() {
		panic(pathEnd{kind: "assert-stop"})
	}
	if !in.replaying() {
		if r, _ := in.solver.Check(in.pc, []*Term{c}, nil); r == Unsat {
			panic(pathEnd{kind: "assert-stop"})
		}
	}
	in.addPC(c)
}

// ---------------------------------------------------------------- errors / fmt

func (in *Interp) callMethodIfAny(c *frame, recv Iface, name string, args ...Value) (Value, bool) {
	if recv.t == nil {
		return nil, false
	}
	ms := in.prog.MethodSets.MethodSet(recv.t)
	for i := 0; i < ms.Len(); i++ {
		sel := ms.At(i)
		if sel.Obj().Name() == name {
			f := in.prog.MethodValue(sel)
			if f == nil {
				return nil, false
			}
			return in.call(c, nil, f, append([]Value{recv.v}, args...)), true
		}
	}
	return nil, false
}

func (in *Interp) comparable(t types.Type) bool { return types.Comparable(t) }

func (in *Interp) errorsIs(c *frame, err, target Iface, depth int) bool {
	if depth > 50 {
		return false
	}
	if err.t == nil || target.t == nil {
		return err.t == nil && target.t == nil
	}
	for {
		if in.comparable(target.t) && types.Identical(err.t, target.t) {
			eq := in.eqTerm(err.t, err.v, target.v)
			if in.forkBool(eq) {
				return true
			}
		}
		if r, ok := in.callMethodIfAny(c, err, "Is", target); ok {
			if rt, isT := r.(*Term); isT && in.forkBool(rt) {
				return true
			}
		}
		u, ok := in.callMethodIfAny(c, err, "Unwrap")
		if !ok {
			return false
		}
		switch u := u.(type) {
		case Iface:
			if u.t == nil {
				return false
			}
			err = u
		case Slice:
			for i := 0; i < u.len; i++ {
				if e, _ := u.arr[i].(Iface); e.t != nil && in.errorsIs(c, e, target, depth+1) {
					return true
				}
			}
			return false
		default:
			return false
		}
	}
}

func (in *Interp) errorsAs(c *frame, err, target Iface, depth int) bool {
	if err.t == nil {
		return false
	}
	if target.t == nil {
		panic(targetPanic{v: in.runtimeErr("errors: target cannot be nil")})
	}
	pt, ok := target.t.Underlying().(*types.Pointer)
	if !ok {
		panic(targetPanic{v: in.runtimeErr("errors: target must be a non-nil pointer")})
	}
	elem := pt.Elem()
	tp := target.v.(*Value)
	for d := 0; d < 50; d++ {
		match := false
		if it, isI := elem.Underlying().(*types.Interface); isI {
			match = in.implements(err.t, it)
			if match {
				store(tp, err)
				return true
			}
		} else if types.Identical(err.t, elem) {
			store(tp, err.v)
			return true
		}
		if r, ok := in.callMethodIfAny(c, err, "As", target); ok {
			if rt, isT := r.(*Term); isT && in.forkBool(rt) {
				return true
			}
		}
		u, ok := in.callMethodIfAny(c, err, "Unwrap")
		if !ok {
			return false
		}
		ui, isI := u.(Iface)
		if !isI || ui.t == nil {
			return false
		}
		err = ui
	}
	return false
}

func (in *Interp) namedType(pkg, name string) types.Type {
	p := in.prog.ImportedPackage(pkg)
	if p == nil {
		return nil
	}
	m := p.Type(name)
	if m == nil {
		return nil
	}
	return m.Type()
}

func (in *Interp) fmtErrorf(c *frame, format Str, args []Value) Value {
	f := in.concStr(format)
	msg := in.sprintf(c, strings.ReplaceAll(f, "%w", "%v"), args).(Str)
	// find %w operand
	var wrapped Value
	if strings.Contains(f, "%w") {
		// index of the verb among verbs
		vi := 0
		for i := 0; i < len(f); i++ {
			if f[i] != '%' {
				continue
			}
			j := i + 1
			for j < len(f) && strings.ContainsRune("+-# 0123456789.", rune(f[j])) {
				j++
			}
			if j >= len(f) {
				break
			}
			if f[j] == '%' {
				i = j
				continue
			}
			if f[j] == 'w' && vi < len(args) {
				if e, ok := args[vi].(Iface); ok && e.t != nil {
					wrapped = e
				}
				break
			}
			vi++
			i = j
		}
	}
	if wrapped != nil {
		if in.fmtWrapError == nil {
			in.fmtWrapError = in.namedType("fmt", "wrapError")
		}
		if in.fmtWrapError != nil {
			p := new(Value)
			*p = Struct{msg, wrapped}
			return Iface{t: types.NewPointer(in.fmtWrapError), v: p}
		}
	}
	if in.errorsErrorString == nil {
		in.errorsErrorString = in.namedType("errors", "errorString")
	}
	if in.errorsErrorString == nil {
		panic(unsupported("errors.errorString type not loaded"))
	}
	p := new(Value)
	*p = Struct{msg}
	return Iface{t: types.NewPointer(in.errorsErrorString), v: p}
}

// sprintf: best-effort formatting; symbolic strings are spliced, symbolic
// integers are rendered as "?" (messages are never used for control flow in
// the code under test; harnesses must not depend on them).
func (in *Interp) sprintf(c *frame, f string, args []Value) Value {
	var parts []Str
	var cur strings.Builder
	flush := func() {
		if cur.Len() > 0 {
			parts = append(parts, mkStr(cur.String()))
			cur.Reset()
		}
	}
	ai := 0
	for i := 0; i < len(f); i++ {
		if f[i] != '%' {
			cur.WriteByte(f[i])
			continue
		}
		j := i + 1
		for j < len(f) && strings.ContainsRune("+-# 0123456789.", rune(f[j])) {
			j++
		}
		if j >= len(f) {
			cur.WriteString(f[i:])
			break
		}
		verb := f[j]
		spec := f[i : j+1]
		i = j
		if verb == '%' {
			cur.WriteByte('%')
			continue
		}
		if ai >= len(args) {
			cur.WriteString("%!" + string(verb) + "(MISSING)")
			continue
		}
		a := args[ai]
		ai++
		s, sym := in.formatArg(c, spec, verb, a)
		if sym != nil {
			flush()
			parts = append(parts, *sym)
		} else {
			cur.WriteString(s)
		}
	}
	flush()
	res := Str{}
	for _, p := range parts {
		res = in.strConcat(res, p)
	}
	return res
}

func (in *Interp) formatArg(c *frame, spec string, verb byte, a Value) (string, *Str) {
	av, ok := a.(Iface)
	if !ok {
		return "?", nil
	}
	if av.t == nil {
		return "<nil>", nil
	}
	switch v := av.v.(type) {
	case Str:
		if v.sym != nil {
			if verb == 's' || verb == 'v' {
				return "", &v
			}
			return "?", nil
		}
		switch verb {
		case 'q':
			return strconv.Quote(v.s), nil
		case 'x':
			return fmt.Sprintf("%x", v.s), nil
		case 's', 'v':
			if spec == "%s" || spec == "%v" {
				return v.s, nil
			}
			return fmt.Sprintf(spec, v.s), nil
		}
		return v.s, nil
	case *Term:
		if v.op != OpConst {
			return "?", nil
		}
		if v.w == 0 {
			return strconv.FormatBool(v.val == 1), nil
		}
		if verb == 's' {
			// maybe a Stringer
			if r, ok := in.callMethodIfAny(c, av, "String"); ok {
				if rs, isS := r.(Str); isS && rs.sym == nil {
					return rs.s, nil
				}
			}
		}
		if verb == 'v' {
			if r, ok := in.callMethodIfAny(c, av, "String"); ok {
				if rs, isS := r.(Str); isS && rs.sym == nil {
					return rs.s, nil
				}
			}
		}
		sp := spec
		if verb == 'v' || verb == 's' {
			sp = "%d"
		}
		if isSigned(av.t) {
			return fmt.Sprintf(sp, v.sval()), nil
		}
		return fmt.Sprintf(sp, v.val), nil
	case float64:
		if verb == 'v' {
			return fmt.Sprintf("%v", v), nil
		}
		return fmt.Sprintf(spec, v), nil
	case Slice:
		if eb, ok := av.t.Underlying().(*types.Slice); ok {
			if b, ok := eb.Elem().Underlying().(*types.Basic); ok && b.Kind() == types.Uint8 {
				allc := true
				bs := make([]byte, v.len)
				for i := 0; i < v.len; i++ {
					t := v.arr[i].(*Term)
					if t.op != OpConst {
						allc = false
						break
					}
					bs[i] = byte(t.val)
				}
				if allc {
					switch verb {
					case 's':
						return string(bs), nil
					case 'x':
						return fmt.Sprintf("%x", bs), nil
					case 'v':
						return fmt.Sprintf("%v", bs), nil
					}
				}
			}
		}
		return "?", nil
	}
	// error / Stringer
	if r, ok := in.callMethodIfAny(c, av, "Error"); ok {
		if rs, isS := r.(Str); isS {
			if rs.sym != nil {
				return "", &rs
			}
			return rs.s, nil
		}
	}
	if r, ok := in.callMethodIfAny(c, av, "String"); ok {
		if rs, isS := r.(Str); isS {
			if rs.sym != nil {
				return "", &rs
			}
			return rs.s, nil
		}
	}
	return "?", nil
}
