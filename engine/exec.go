package main

import (
	"fmt"
	"go/token"
	"go/types"
	"os"
	"runtime"
	"slices"
	"strings"

	"golang.org/x/tools/go/ssa"
)

type Decision struct {
	N      int    `json:"n"`
	Choice int    `json:"c"`
	Val    uint64 `json:"v,omitempty"`
	Free   bool   `json:"f,omitempty"`
	Checked bool  `json:"k,omitempty"`
}

type Draw struct {
	Kind string  `json:"k"`
	W    int     `json:"w,omitempty"`
	T    *Term   `json:"-"`
	Ts   []*Term `json:"-"`
	V    uint64  `json:"v"`
	Vs   []uint64 `json:"vs,omitempty"`
	Stub bool    `json:"s,omitempty"`
}

func (in *Interp) addDraw(d Draw) {
	d.Stub = in.inStub > 0
	in.draws = append(in.draws, d)
}

type deferred struct {
	fn    Value
	args  []Value
	instr *ssa.Defer
	tail  *deferred
}

type frame struct {
	in               *Interp
	caller           *frame
	fn               *ssa.Function
	block, prevBlock *ssa.BasicBlock
	env              map[ssa.Value]Value
	locals           []Value
	defers           *deferred
	result           Value
	panicking        bool
	panicv           any
	phitemps         []Value
	callInstr        ssa.Instruction
}

type Interp struct {
	prog    *ssa.Program
	tt      *TermTable
	solver  *Solver
	ex      *Explorer
	wid     int
	globals map[*ssa.Global]*Value
	pkgInit map[*ssa.Package]int // 0 none, 1 running, 2 done

	// path state
	pc       []*Term
	trace    []Decision
	prefix   []Decision
	draws    []Draw
	nvars    int
	natoms   int
	steps    int64
	replace  map[string]Value
	reached  map[string]bool
	ptrOrig  map[*Value]Value
	ufRecs   []ufRecord
	onceDone map[*Value]bool
	pools    map[*Value][]Value
	atomicVals map[*Value]Value
	clock    int64
	inStub   int
	panicStack []string
	errStack []string
	goCount  int
	observes []string
	initMode int // >0 while running a package initialiser (tolerant)
	depth    int
	curFrame *frame
	sc       schedState
	syncMaps map[*Value]*Map

	funcsRun map[*ssa.Function]int64
	builtPkgs map[*ssa.Package]bool

	runtimeErrorString types.Type
	errorsErrorString  types.Type
	fmtWrapError       types.Type
}

func (in *Interp) resetPath(prefix []Decision) {
	in.pc = in.pc[:0]
	in.trace = in.trace[:0]
	in.prefix = prefix
	in.draws = in.draws[:0]
	in.nvars = 0
	in.natoms = 0
	in.steps = 0
	in.replace = map[string]Value{}
	in.reached = map[string]bool{}
	in.ptrOrig = map[*Value]Value{}
	in.ufRecs = in.ufRecs[:0]
	in.onceDone = map[*Value]bool{}
	in.pools = map[*Value][]Value{}
	in.atomicVals = map[*Value]Value{}
	in.clock = 0
	in.inStub = 0
	in.panicStack = nil
	in.errStack = nil
	in.goCount = 0
	in.observes = in.observes[:0]
	in.globals = map[*ssa.Global]*Value{}
	in.pkgInit = map[*ssa.Package]int{}
	in.initMode = 0
	in.depth = 0
	in.curFrame = nil
	in.schedReset()
	in.syncMaps = nil
}

func (in *Interp) replaying() bool { return len(in.trace) < len(in.prefix) }

func (in *Interp) addPC(c *Term) {
	if c.IsTrue() {
		return
	}
	// split conjunctions for better slicing
	if c.op == OpAnd {
		in.addPC(c.args[0])
		in.addPC(c.args[1])
		return
	}
	in.pc = append(in.pc, c)
}

// fork chooses one of the mutually exclusive, exhaustive conditions.
func (in *Interp) fork(conds []*Term, val uint64) int {
	// constant resolution
	nonFalse := -1
	cnt := 0
	for i, c := range conds {
		if c.IsTrue() {
			return i
		}
		if !c.IsFalse() {
			nonFalse = i
			cnt++
		}
	}
	if cnt == 0 {
		panic(pathEnd{kind: "infeasible", msg: "fork with no alternative"})
	}
	_ = nonFalse
	if in.replaying() {
		d := in.prefix[len(in.trace)]
		if d.N != len(conds) {
			panic(fmt.Sprintf("replay divergence: decision %d expects %d alternatives, have %d", len(in.trace), d.N, len(conds)))
		}
		in.trace = append(in.trace, d)
		last := len(in.trace) == len(in.prefix)
		if last && !d.Checked {
			if r, _ := in.solver.Check(in.pc, []*Term{conds[d.Choice]}, nil); r == Unsat {
				panic(pathEnd{kind: "infeasible"})
			} else if r == Unknown {
				in.ex.noteUnknownBranch()
			}
		}
		in.addPC(conds[d.Choice])
		return d.Choice
	}
	// exploring: find first feasible alternative; queue the others unchecked.
	chosen := -1
	for i, c := range conds {
		if c.IsFalse() {
			continue
		}
		if i == len(conds)-1 && chosen == -1 {
			// all others infeasible: implied by satisfiable pc
			chosen = i
			break
		}
		r, _ := in.solver.Check(in.pc, []*Term{c}, nil)
		if r == Unknown {
			in.ex.noteUnknownBranch()
		}
		if r != Unsat {
			chosen = i
			break
		}
	}
	if chosen == -1 {
		panic(pathEnd{kind: "infeasible"})
	}
	eager := len(conds) <= 4
	pushed := 0
	for j := chosen + 1; j < len(conds); j++ {
		if conds[j].IsFalse() {
			continue
		}
		if eager {
			r, _ := in.solver.Check(in.pc, []*Term{conds[j]}, nil)
			if r == Unsat {
				continue
			}
			if r == Unknown {
				in.ex.noteUnknownBranch()
			}
		}
		alt := make([]Decision, len(in.trace)+1)
		copy(alt, in.trace)
		alt[len(in.trace)] = Decision{N: len(conds), Choice: j, Val: val, Checked: eager}
		in.ex.push(alt)
		pushed++
	}
	in.trace = append(in.trace, Decision{N: len(conds), Choice: chosen, Val: val})
	if in.ex.cfg.Verbose {
		site := "?"
		if in.curFrame != nil {
			site = in.curFrame.fn.String()
		}
		if pushed > 0 {
			in.ex.noteForkSite(site, pushed)
		}
	}
	in.addPC(conds[chosen])
	return chosen
}

// forkFree chooses among n unconstrained alternatives (no solver involved).
func (in *Interp) forkFree(n int) int {
	if n <= 1 {
		return 0
	}
	if in.replaying() {
		d := in.prefix[len(in.trace)]
		if d.N != n || !d.Free {
			panic(fmt.Sprintf("replay divergence: free decision %d expects %d alternatives, have %d", len(in.trace), d.N, n))
		}
		in.trace = append(in.trace, d)
		return d.Choice
	}
	for j := 1; j < n; j++ {
		alt := make([]Decision, len(in.trace)+1)
		copy(alt, in.trace)
		alt[len(in.trace)] = Decision{N: n, Choice: j, Free: true}
		in.ex.push(alt)
	}
	in.trace = append(in.trace, Decision{N: n, Choice: 0, Free: true})
	return 0
}

// forkBool: returns the branch taken for condition c.
func (in *Interp) forkBool(c *Term) bool {
	if c.IsTrue() {
		return true
	}
	if c.IsFalse() {
		return false
	}
	return in.fork([]*Term{c, in.tt.Not(c)}, 0) == 0
}

// concretize returns a concrete value for x, forking over all feasible values.
func (in *Interp) concretize(x *Term) uint64 {
	if x.op == OpConst {
		return x.val
	}
	for n := 0; ; n++ {
		if n > in.ex.cfg.ConcretizeCap {
			panic(pathEnd{kind: "unwind", msg: "concretize cap exceeded for " + x.String()})
		}
		var v uint64
		if in.replaying() {
			v = in.prefix[len(in.trace)].Val
		} else {
			r, m := in.solver.Check(in.pc, nil, []*Term{x})
			if r != Sat {
				if r == Unknown {
					in.ex.noteUnknownBranch()
				}
				panic(pathEnd{kind: "infeasible", msg: "concretize: " + r.String()})
			}
			v = m[x.id]
		}
		var c *Term
		if x.w == 0 {
			c = x
			if v == 0 {
				c = in.tt.Not(x)
			}
		} else {
			c = in.tt.Eq(x, in.tt.Const(x.w, v))
		}
		if in.fork([]*Term{c, in.tt.Not(c)}, v) == 0 {
			return v
		}
	}
}

func (in *Interp) concInt(v Value) int {
	t := v.(*Term)
	return int(int64(in.concretize(t)))
}

func (in *Interp) freshVar(tag string, w int) *Term {
	name := fmt.Sprintf("n%d_%s_w%d", in.nvars, tag, w)
	in.nvars++
	return in.tt.Var(name, w)
}

func (in *Interp) runtimeErr(msg string) Value {
	if in.runtimeErrorString != nil {
		return Iface{t: in.runtimeErrorString, v: mkStr(msg)}
	}
	return Iface{t: types.Typ[types.String], v: mkStr(msg)}
}

func (in *Interp) throw(msg string) {
	in.panicStack = in.stack()
	panic(targetPanic{v: in.runtimeErr("runtime error: " + msg)})
}

// ---------------------------------------------------------------- frames

func (fr *frame) get(key ssa.Value) Value {
	switch key := key.(type) {
	case nil:
		return nil
	case *ssa.Function, *ssa.Builtin:
		return key
	case *ssa.Const:
		return fr.in.constValue(key)
	case *ssa.Global:
		return fr.in.globalAddr(key)
	}
	if r, ok := fr.env[key]; ok {
		return r
	}
	panic(fmt.Sprintf("get: no value for %T: %v in %s", key, key.Name(), fr.fn))
}

func (in *Interp) globalAddr(g *ssa.Global) *Value {
	if r, ok := in.globals[g]; ok {
		return r
	}
	// first touch of this package: allocate all its globals, run its initialiser
	pkg := g.Pkg
	in.ensurePkg(pkg)
	if r, ok := in.globals[g]; ok {
		return r
	}
	panic("global not allocated: " + g.String())
}

func (in *Interp) ensurePkg(pkg *ssa.Package) {
	if in.pkgInit[pkg] != 0 {
		return
	}
	in.pkgInit[pkg] = 1
	for _, m := range pkg.Members {
		if g, ok := m.(*ssa.Global); ok {
			cell := in.zero(deref(g.Type()))
			p := new(Value)
			*p = cell
			in.globals[g] = p
		}
	}
	initFn := pkg.Func("init")
	if initFn != nil {
		in.ensureBuilt(initFn)
	}
	if initFn != nil && initFn.Blocks != nil {
		in.runInit(pkg, initFn)
	}
	in.pkgInit[pkg] = 2
}

func deref(t types.Type) types.Type {
	if p, ok := t.Underlying().(*types.Pointer); ok {
		return p.Elem()
	}
	panic("deref of non-pointer " + t.String())
}

// runInit interprets a package initialiser in tolerant mode: failures of
// individual calls poison their result instead of aborting the path.
func (in *Interp) runInit(pkg *ssa.Package, fn *ssa.Function) {
	in.initMode++
	saved := in.curFrame
	defer func() {
		in.initMode--
		in.curFrame = saved
		if r := recover(); r != nil {
			switch r.(type) {
			case unsupportedErr, targetPanic, string, runtime.Error:
				// leave remaining globals zero / poisoned
				if in.ex.cfg.Verbose {
					fmt.Fprintf(os.Stderr, "init of %s stopped: %v\n", pkg.Pkg.Path(), r)
				}
			default:
				panic(r)
			}
		}
	}()
	in.callSSA(nil, nil, fn, nil, nil)
}

func (in *Interp) runDefer(fr *frame, d *deferred) {
	var ok bool
	defer func() {
		if !ok {
			r := recover()
			if _, isT := r.(targetPanic); isT {
				fr.panicking = true
				fr.panicv = r
			} else {
				panic(r)
			}
		}
	}()
	in.call(fr, d.instr, d.fn, d.args)
	ok = true
}

func (in *Interp) runDefers(fr *frame) {
	for d := fr.defers; d != nil; d = d.tail {
		in.runDefer(fr, d)
	}
	fr.defers = nil
	if fr.panicking {
		panic(fr.panicv)
	}
}

func (in *Interp) call(caller *frame, site ssa.Instruction, fn Value, args []Value) Value {
	switch fn := fn.(type) {
	case *ssa.Function:
		if fn == nil {
			in.throw("invalid memory address or nil pointer dereference (call of nil func)")
		}
		return in.callSSA(caller, site, fn, args, nil)
	case *Closure:
		if fn == nil {
			in.throw("call of nil closure")
		}
		return in.callSSA(caller, site, fn.Fn, args, fn.Env)
	case *ssa.Builtin:
		return in.callBuiltin(caller, site, fn, args)
	case Poison:
		panic(unsupported("call of poisoned function value: " + fn.why))
	}
	if nf, ok := fn.(*NativeFunc); ok {
		return nf.f(in, args)
	}
	panic(fmt.Sprintf("cannot call %T", fn))
}

func zeroResults(in *Interp, sig *types.Signature) Value {
	res := sig.Results()
	switch res.Len() {
	case 0:
		return nil
	case 1:
		return in.zero(res.At(0).Type())
	}
	t := make(Tuple, res.Len())
	for i := range t {
		t[i] = in.zero(res.At(i).Type())
	}
	return t
}

func (in *Interp) callSSA(caller *frame, site ssa.Instruction, fn *ssa.Function, args []Value, env []Value) (result Value) {
	name := fn.String()
	if fn.Parent() == nil {
		if len(in.replace) > 0 {
			if r, ok := in.replace[name]; ok {
				if rf, _ := r.(*ssa.Function); rf != fn {
					in.inStub++
					defer func() { in.inStub-- }()
					return in.call(caller, site, r, args)
				}
			}
		}
		if ext, ok := intrinsics[name]; ok {
			return ext(in, caller, fn, args)
		}
		if o := fn.Origin(); o != nil {
			if ext, ok := intrinsics[o.String()]; ok {
				return ext(in, caller, fn, args)
			}
		}
		if fn.Pkg != nil {
			if noopPkg(fn.Pkg.Pkg.Path()) {
				return zeroResults(in, fn.Signature)
			}
		} else if fn.Signature.Recv() != nil || fn.Object() != nil {
			// methods of instantiated / wrapper functions: package via object
			if obj := fn.Object(); obj != nil && obj.Pkg() != nil && noopPkg(obj.Pkg().Path()) {
				return zeroResults(in, fn.Signature)
			}
		}
	}
	in.ensureBuilt(fn)
	if fn.Blocks == nil {
		// synthetic wrappers are built lazily by go/ssa; external functions have none
		if in.initMode > 0 {
			return in.poisonResults(fn.Signature, "no body: "+name)
		}
		panic(unsupported("no body for function " + name))
	}
	if fn.TypeParams().Len() > 0 && len(fn.TypeArgs()) == 0 {
		panic(unsupported("uninstantiated generic " + name))
	}
	if in.initMode > 0 && fn.Synthetic == "" && strings.HasPrefix(fn.Name(), "init#") {
		return nil // declared init functions are not run
	}
	if in.initMode > 0 && fn.Name() == "init" && fn.Synthetic != "" && caller != nil {
		// dependency package initialiser: packages are initialised lazily on first use
		return nil
	}
	in.depth++
	if in.depth > 2000 {
		panic(pathEnd{kind: "budget", msg: "call depth exceeded in " + name})
	}
	in.funcsRun[fn]++
	fr := &frame{in: in, caller: caller, fn: fn, callInstr: site}
	fr.env = make(map[ssa.Value]Value, len(fn.Params)+8)
	fr.block = fn.Blocks[0]
	fr.locals = make([]Value, len(fn.Locals))
	for i, l := range fn.Locals {
		fr.locals[i] = in.zero(deref(l.Type()))
		fr.env[l] = &fr.locals[i]
	}
	for i, p := range fn.Params {
		fr.env[p] = args[i]
	}
	for i, fv := range fn.FreeVars {
		fr.env[fv] = env[i]
	}
	savedFrame := in.curFrame
	in.curFrame = fr
	defer func() { in.depth--; in.curFrame = savedFrame }()
	if in.initMode > 0 && caller != nil {
		// tolerant: an unsupported construct inside a callee poisons its result
		defer func() {
			if r := recover(); r != nil {
				if u, ok := r.(unsupportedErr); ok {
					result = in.poisonResults(fn.Signature, u.msg)
					return
				}
				// engine-internal failures (a construct the executor has no model for)
				// and target panics inside an initialiser poison the result as well
				switch rr := r.(type) {
				case string:
					result = in.poisonResults(fn.Signature, "engine: "+rr)
					return
				case runtime.Error:
					result = in.poisonResults(fn.Signature, "engine: "+rr.Error())
					return
				case targetPanic:
					result = in.poisonResults(fn.Signature, "panic in initialiser: "+describe(rr.v))
					return
				}
				panic(r)
			}
		}()
	}
	for fr.block != nil {
		in.runFrame(fr)
	}
	return fr.result
}

// ensureBuilt makes sure the SSA body of fn's package is completely built
// before any of its functions is executed (bodies are built lazily, and a
// package being built by another worker must not be observed half-done).
func (in *Interp) ensureBuilt(fn *ssa.Function) {
	f := fn
	for f.Parent() != nil {
		f = f.Parent()
	}
	if o := f.Origin(); o != nil {
		f = o
	}
	if f.Pkg == nil {
		return
	}
	if in.builtPkgs[f.Pkg] {
		return
	}
	in.ex.buildFor(f)
	in.builtPkgs[f.Pkg] = true
}

func (in *Interp) poisonResults(sig *types.Signature, why string) Value {
	n := sig.Results().Len()
	switch n {
	case 0:
		return nil
	case 1:
		return Poison{why}
	}
	t := make(Tuple, n)
	for i := range t {
		t[i] = Poison{why}
	}
	return t
}

func (in *Interp) runFrame(fr *frame) {
	defer func() {
		if fr.block == nil {
			return // normal return
		}
		r := recover()
		if _, isT := r.(targetPanic); !isT {
			if in.errStack == nil {
				in.curFrame = fr
				in.errStack = in.stack()
			}
			panic(r) // engine-level outcome: propagate
		}
		fr.panicking = true
		fr.panicv = r
		in.curFrame = fr
		in.runDefers(fr)
		fr.block = fr.fn.Recover
		if fr.block == nil {
			// recovered without named results: zero results
			fr.result = zeroResults(in, fr.fn.Signature)
		}
	}()
	for {
		nonPhis := in.executePhis(fr)
		for _, instr := range nonPhis {
			in.steps++
			if in.steps > in.ex.cfg.StepBudget {
				panic(pathEnd{kind: "budget", msg: "instruction budget exceeded in " + fr.fn.String()})
			}
			if in.visitInstr(fr, instr) == kReturn {
				return
			}
		}
	}
}

func (in *Interp) executePhis(fr *frame) []ssa.Instruction {
	firstNonPhi := -1
	for i, instr := range fr.block.Instrs {
		if _, ok := instr.(*ssa.Phi); !ok {
			firstNonPhi = i
			break
		}
	}
	nonPhis := fr.block.Instrs[firstNonPhi:]
	if firstNonPhi > 0 {
		phis := fr.block.Instrs[:firstNonPhi]
		predIndex := slices.Index(fr.block.Preds, fr.prevBlock)
		fr.phitemps = fr.phitemps[:0]
		for _, phi := range phis {
			phi := phi.(*ssa.Phi)
			fr.phitemps = append(fr.phitemps, fr.get(phi.Edges[predIndex]))
		}
		for i, phi := range phis {
			fr.env[phi.(*ssa.Phi)] = fr.phitemps[i]
		}
	}
	return nonPhis
}

type continuation int

const (
	kNext continuation = iota
	kReturn
	kJump
)

func (in *Interp) checkNilPtr(p *Value) {
	if p == nil {
		in.throw("invalid memory address or nil pointer dereference")
	}
}

// SymPtr is a pointer to one of several scalar cells selected by a symbolic
// index (result of IndexAddr with a symbolic index into a small array/slice
// of scalars).  Loads build an ite-chain, stores update every cell.
type SymPtr struct {
	arr []Value
	idx *Term
}

func scalarCells(arr []Value) bool {
	if len(arr) == 0 || len(arr) > 256 {
		return false
	}
	w := -1
	for _, e := range arr {
		t, ok := e.(*Term)
		if !ok {
			return false
		}
		if w == -1 {
			w = t.w
		} else if w != t.w {
			return false
		}
	}
	return true
}

func (in *Interp) symLoad(p SymPtr) Value {
	n := len(p.arr)
	r := p.arr[n-1].(*Term)
	for i := n - 2; i >= 0; i-- {
		r = in.tt.Ite(in.tt.Eq(p.idx, in.tt.Const(p.idx.w, uint64(i))), p.arr[i].(*Term), r)
	}
	return r
}

func (in *Interp) symStore(p SymPtr, v Value) {
	vt := v.(*Term)
	for i := range p.arr {
		p.arr[i] = in.tt.Ite(in.tt.Eq(p.idx, in.tt.Const(p.idx.w, uint64(i))), vt, p.arr[i].(*Term))
	}
}

// boundsCheck forks a panicking path when idx can be outside [0,n).
func (in *Interp) boundsCheck(idx *Term, n int) {
	var inb *Term
	if n == 0 {
		inb = in.tt.tFalse
	} else {
		inb = in.tt.Cmp(OpBvUlt, idx, in.tt.Const(idx.w, uint64(n)))
	}
	if !in.forkBool(inb) {
		in.throw(fmt.Sprintf("index out of range [symbolic] with length %d", n))
	}
}

func asPtr(v Value) *Value {
	switch v := v.(type) {
	case *Value:
		return v
	case Poison:
		panic(unsupported("use of poisoned value: " + v.why))
	}
	panic(fmt.Sprintf("expected pointer, got %T", v))
}

func (in *Interp) visitInstr(fr *frame, instr ssa.Instruction) continuation {
	switch instr := instr.(type) {
	case *ssa.DebugRef:
		// no-op

	case *ssa.UnOp:
		fr.env[instr] = in.unop(fr, instr, fr.get(instr.X))

	case *ssa.BinOp:
		fr.env[instr] = in.binop(instr.Op, instr.X.Type(), fr.get(instr.X), fr.get(instr.Y))

	case *ssa.Call:
		fn, args := in.prepareCall(fr, &instr.Call)
		fr.env[instr] = in.call(fr, instr, fn, args)
		in.curFrame = fr

	case *ssa.ChangeInterface:
		fr.env[instr] = fr.get(instr.X)

	case *ssa.ChangeType:
		fr.env[instr] = fr.get(instr.X)

	case *ssa.Convert:
		fr.env[instr] = in.conv(instr.Type(), instr.X.Type(), fr.get(instr.X))

	case *ssa.MultiConvert:
		fr.env[instr] = in.conv(instr.Type(), instr.X.Type(), fr.get(instr.X))

	case *ssa.SliceToArrayPointer:
		x := fr.get(instr.X).(Slice)
		n := int(instr.Type().Underlying().(*types.Pointer).Elem().Underlying().(*types.Array).Len())
		if x.len < n {
			in.throw(fmt.Sprintf("cannot convert slice with length %d to array or pointer to array with length %d", x.len, n))
		}
		if x.null {
			fr.env[instr] = (*Value)(nil)
		} else {
			// aliasing array view
			p := new(Value)
			*p = Array(x.arr[:n:n])
			fr.env[instr] = p
		}

	case *ssa.MakeInterface:
		fr.env[instr] = Iface{t: instr.X.Type(), v: fr.get(instr.X)}

	case *ssa.Extract:
		tv := fr.get(instr.Tuple)
		if p, ok := tv.(Poison); ok {
			fr.env[instr] = p
		} else {
			fr.env[instr] = tv.(Tuple)[instr.Index]
		}

	case *ssa.Slice:
		fr.env[instr] = in.sliceOp(instr, fr.get(instr.X), fr.get(instr.Low), fr.get(instr.High), fr.get(instr.Max))

	case *ssa.Return:
		switch len(instr.Results) {
		case 0:
		case 1:
			fr.result = fr.get(instr.Results[0])
		default:
			res := make(Tuple, 0, len(instr.Results))
			for _, r := range instr.Results {
				res = append(res, fr.get(r))
			}
			fr.result = res
		}
		fr.block = nil
		return kReturn

	case *ssa.RunDefers:
		in.runDefers(fr)
		in.curFrame = fr

	case *ssa.Panic:
		in.panicStack = in.stack()
		panic(targetPanic{v: fr.get(instr.X)})

	case *ssa.Send:
		c, _ := fr.get(instr.Chan).(*Chan)
		in.schedSend(c, fr.get(instr.X))

	case *ssa.Store:
		if sp, ok := fr.get(instr.Addr).(SymPtr); ok {
			in.symStore(sp, fr.get(instr.Val))
			break
		}
		p := asPtr(fr.get(instr.Addr))
		in.checkNilPtr(p)
		store(p, fr.get(instr.Val))

	case *ssa.If:
		c := fr.get(instr.Cond)
		ct, ok := c.(*Term)
		if !ok {
			if p, isP := c.(Poison); isP {
				panic(unsupported("branch on poisoned value: " + p.why))
			}
			panic(fmt.Sprintf("If on %T", c))
		}
		succ := 1
		if in.forkBool(ct) {
			succ = 0
		}
		fr.prevBlock, fr.block = fr.block, fr.block.Succs[succ]
		return kJump

	case *ssa.Jump:
		fr.prevBlock, fr.block = fr.block, fr.block.Succs[0]
		return kJump

	case *ssa.Defer:
		fn, args := in.prepareCall(fr, &instr.Call)
		defers := &fr.defers
		if instr.DeferStack != nil {
			if into := fr.get(instr.DeferStack); into != nil {
				defers = into.(**deferred)
			}
		}
		*defers = &deferred{fn: fn, args: args, instr: instr, tail: *defers}

	case *ssa.Go:
		in.goCount++
		if in.sc.on {
			fn, args := in.prepareCall(fr, &instr.Call)
			in.spawn(func() { in.call(nil, instr, fn, args) })
			in.yield(nil, "go")
		} else if in.ex.cfg.RunGo {
			fn, args := in.prepareCall(fr, &instr.Call)
			in.call(fr, instr, fn, args)
			in.curFrame = fr
		}

	case *ssa.MakeChan:
		fr.env[instr] = &Chan{cap: in.concInt(fr.get(instr.Size))}

	case *ssa.Alloc:
		var addr *Value
		if instr.Heap {
			addr = new(Value)
			fr.env[instr] = addr
		} else {
			addr = fr.env[instr].(*Value)
		}
		*addr = in.zero(deref(instr.Type()))

	case *ssa.MakeSlice:
		// a symbolic size: can it exceed the allocation bound?  (input-controlled allocation is an outcome of its own)
		for _, sz := range []ssa.Value{instr.Len, instr.Cap} {
			if t, ok := fr.get(sz).(*Term); ok && !t.IsConst() {
				big := in.tt.Cmp(OpBvSlt, in.tt.Const(t.w, uint64(in.ex.cfg.MaxAlloc)), t)
				if in.forkBool(big) {
					panic(pathEnd{kind: "alloc", msg: fmt.Sprintf("make slice whose size is input-controlled beyond %d elements at %s", in.ex.cfg.MaxAlloc, in.pos(instr))})
				}
			}
		}
		n := in.concInt(fr.get(instr.Len))
		c := in.concInt(fr.get(instr.Cap))
		if n < 0 || c < n {
			in.throw("makeslice: len out of range")
		}
		if int64(c) > in.ex.cfg.MaxAlloc {
			panic(pathEnd{kind: "alloc", msg: fmt.Sprintf("make slice of %d elements at %s", c, in.pos(instr))})
		}
		arr := make([]Value, c)
		tElt := instr.Type().Underlying().(*types.Slice).Elem()
		z := in.zero(tElt)
		for i := range arr {
			arr[i] = copyVal(z)
		}
		fr.env[instr] = Slice{arr: arr, len: n}

	case *ssa.MakeMap:
		fr.env[instr] = &Map{kt: instr.Type().Underlying().(*types.Map).Key()}

	case *ssa.Range:
		fr.env[instr] = in.rangeIter(fr, fr.get(instr.X))

	case *ssa.Next:
		fr.env[instr] = in.iterNext(fr.get(instr.Iter).(*Iter), instr)

	case *ssa.FieldAddr:
		p := asPtr(fr.get(instr.X))
		in.checkNilPtr(p)
		s, ok := (*p).(Struct)
		if !ok {
			if ps, isP := (*p).(Poison); isP {
				panic(unsupported("field of poisoned value: " + ps.why))
			}
			panic(fmt.Sprintf("FieldAddr on %T in %s", *p, fr.fn))
		}
		fr.env[instr] = &s[instr.Field]

	case *ssa.Field:
		x := fr.get(instr.X)
		if ps, isP := x.(Poison); isP {
			fr.env[instr] = ps
		} else {
			fr.env[instr] = copyVal(x.(Struct)[instr.Field])
		}

	case *ssa.IndexAddr:
		x := fr.get(instr.X)
		idx := fr.get(instr.Index).(*Term)
		switch x := x.(type) {
		case Slice:
			if idx.op != OpConst && scalarCells(x.arr[:x.len]) {
				in.boundsCheck(idx, x.len)
				fr.env[instr] = SymPtr{arr: x.arr[:x.len], idx: idx}
				break
			}
			i := in.boundsIndex(idx, instr.Index.Type(), x.len)
			fr.env[instr] = &x.arr[i]
		case *Value:
			in.checkNilPtr(x)
			a := (*x).(Array)
			if idx.op != OpConst && scalarCells(a) {
				in.boundsCheck(idx, len(a))
				fr.env[instr] = SymPtr{arr: a, idx: idx}
				break
			}
			i := in.boundsIndex(idx, instr.Index.Type(), len(a))
			fr.env[instr] = &a[i]
		default:
			panic(fmt.Sprintf("unexpected x type in IndexAddr: %T", x))
		}

	case *ssa.Index:
		x := fr.get(instr.X)
		idx := fr.get(instr.Index).(*Term)
		switch x := x.(type) {
		case Array:
			if idx.op != OpConst && scalarCells(x) {
				in.boundsCheck(idx, len(x))
				fr.env[instr] = in.symLoad(SymPtr{arr: x, idx: idx})
				break
			}
			i := in.boundsIndex(idx, instr.Index.Type(), len(x))
			fr.env[instr] = copyVal(x[i])
		case Str:
			fr.env[instr] = in.strIndex(x, idx, instr.Index.Type())
		default:
			panic(fmt.Sprintf("unexpected x type in Index: %T", x))
		}

	case *ssa.Lookup:
		fr.env[instr] = in.lookup(instr, fr.get(instr.X), fr.get(instr.Index))

	case *ssa.MapUpdate:
		m := fr.get(instr.Map).(*Map)
		if m == nil {
			in.throw("assignment to entry in nil map")
		}
		in.mapSet(m, fr.get(instr.Key), fr.get(instr.Value))

	case *ssa.TypeAssert:
		fr.env[instr] = in.typeAssert(instr, fr.get(instr.X))

	case *ssa.MakeClosure:
		var bindings []Value
		for _, b := range instr.Bindings {
			bindings = append(bindings, fr.get(b))
		}
		fr.env[instr] = &Closure{instr.Fn.(*ssa.Function), bindings}

	case *ssa.Select:
		fr.env[instr] = in.selectOp(fr, instr)

	default:
		panic(unsupported(fmt.Sprintf("instruction %T", instr)))
	}
	return kNext
}

func (in *Interp) pos(instr ssa.Instruction) string {
	p := instr.Pos()
	if p == token.NoPos {
		if instr.Parent() != nil {
			return instr.Parent().String()
		}
		return "?"
	}
	return in.prog.Fset.Position(p).String()
}

func (in *Interp) strIndex(x Str, idx *Term, it types.Type) Value {
	if idx.op != OpConst && x.Len() > 0 && x.Len() <= 256 {
		in.boundsCheck(idx, x.Len())
		bs := in.strBytes(x)
		arr := make([]Value, len(bs))
		for i, b := range bs {
			arr[i] = b
		}
		return in.symLoad(SymPtr{arr: arr, idx: idx})
	}
	i := in.boundsIndex(idx, it, x.Len())
	if x.sym != nil {
		return x.sym[i]
	}
	return in.tt.Const(8, uint64(x.s[i]))
}

// boundsIndex checks 0 <= idx < n (forking a panicking path when it can fail)
// and returns a concrete index.
func (in *Interp) boundsIndex(idx *Term, it types.Type, n int) int {
	tt := in.tt
	if idx.op == OpConst {
		var i int64
		if isSigned(it) {
			i = idx.sval()
		} else {
			i = int64(idx.val)
			if idx.val > 1<<62 {
				i = -1
			}
		}
		if i < 0 || i >= int64(n) {
			in.throw(fmt.Sprintf("index out of range [%d] with length %d", i, n))
		}
		return int(i)
	}
	var inb *Term
	if n == 0 {
		inb = tt.tFalse
	} else {
		// unsigned compare covers negative values for signed types too
		inb = tt.Cmp(OpBvUlt, idx, tt.Const(idx.w, uint64(n)))
	}
	if !in.forkBool(inb) {
		in.throw(fmt.Sprintf("index out of range [symbolic] with length %d", n))
	}
	return int(in.concretize(idx))
}

func (in *Interp) prepareCall(fr *frame, call *ssa.CallCommon) (fn Value, args []Value) {
	v := fr.get(call.Value)
	if call.Method == nil {
		fn = v
	} else {
		recv, ok := v.(Iface)
		if !ok {
			if p, isP := v.(Poison); isP {
				panic(unsupported("method call on poisoned value: " + p.why))
			}
			panic(fmt.Sprintf("invoke on %T", v))
		}
		if recv.t == nil {
			in.throw("invalid memory address or nil pointer dereference (method " + call.Method.Name() + " invoked on nil interface)")
		}
		f := in.prog.LookupMethod(recv.t, call.Method.Pkg(), call.Method.Name())
		if f == nil {
			panic(fmt.Sprintf("method set for dynamic type %v does not contain %s", recv.t, call.Method))
		}
		fn = f
		args = append(args, recv.v)
	}
	for _, arg := range call.Args {
		args = append(args, fr.get(arg))
	}
	return
}

func (in *Interp) typeAssert(instr *ssa.TypeAssert, xv Value) Value {
	x, ok := xv.(Iface)
	if !ok {
		if p, isP := xv.(Poison); isP {
			panic(unsupported("type assertion on poisoned value: " + p.why))
		}
		panic(fmt.Sprintf("typeAssert on %T", xv))
	}
	var v Value
	err := ""
	if idst, ok := instr.AssertedType.Underlying().(*types.Interface); ok {
		if x.t == nil {
			err = fmt.Sprintf("interface conversion: interface is nil, not %s", instr.AssertedType)
		} else if !in.implements(x.t, idst) {
			err = fmt.Sprintf("interface conversion: %v is not %v: missing method", x.t, instr.AssertedType)
		} else {
			v = x
		}
	} else if x.t == nil {
		err = fmt.Sprintf("interface conversion: interface is nil, not %s", instr.AssertedType)
	} else if types.Identical(x.t, instr.AssertedType) {
		v = copyVal(x.v)
	} else {
		err = fmt.Sprintf("interface conversion: interface is %s, not %s", x.t, instr.AssertedType)
	}
	if err != "" {
		if !instr.CommaOk {
			panic(targetPanic{v: in.runtimeErr(err)})
		}
		return Tuple{in.zero(instr.AssertedType), in.tt.Bool(false)}
	}
	if instr.CommaOk {
		return Tuple{v, in.tt.Bool(true)}
	}
	return v
}

type implKey struct {
	t types.Type
	i *types.Interface
}

var implCache = map[implKey]bool{}

func (in *Interp) implements(t types.Type, i *types.Interface) bool {
	if i.NumMethods() == 0 {
		return true
	}
	k := implKey{t, i}
	if r, ok := in.ex.implCacheGet(k); ok {
		return r
	}
	r := types.Implements(t, i)
	in.ex.implCachePut(k, r)
	return r
}

// ---------------------------------------------------------------- constants

func (in *Interp) constValue(c *ssa.Const) Value {
	if c.Value == nil {
		return in.zero(c.Type())
	}
	t := c.Type()
	if tp, ok := t.(*types.TypeParam); ok {
		_ = tp
		panic(unsupported("const of type param"))
	}
	if b, ok := t.Underlying().(*types.Basic); ok {
		switch {
		case b.Kind() == types.Bool || b.Kind() == types.UntypedBool:
			return in.tt.Bool(constBool(c))
		case b.Info()&types.IsInteger != 0:
			w := in.width(b)
			if b.Info()&types.IsUnsigned != 0 {
				return in.tt.Const(w, c.Uint64())
			}
			return in.tt.Const(w, uint64(c.Int64()))
		case b.Info()&types.IsFloat != 0:
			return c.Float64()
		case b.Info()&types.IsComplex != 0:
			return c.Complex128()
		case b.Info()&types.IsString != 0:
			return mkStr(constString(c))
		}
	}
	panic(fmt.Sprintf("constValue: %s", c))
}
