package main

import (
	"fmt"
	"os"
	"runtime/debug"
	"sort"
	"strings"
	"sync"
	"time"

	"golang.org/x/tools/go/ssa"
)

type Config struct {
	Workers         int
	StepBudget      int64
	ConcretizeCap   int
	MaxAlloc        int64
	MapPerm         bool
	RunGo           bool
	Sched           bool
	Preempt         int
	UnbufferedAsOne bool
	Params          map[string]int
	Verbose         bool
	SolverBin       []string
	TimeoutMs       int
	MaxPaths        int64
	Deadline        time.Time
	MaxViolations   int
	FixedDraws      []uint64 // concrete run: values for Nondet draws in order
	SolverLog       string
}

type ModelDraw struct {
	Kind string   `json:"k"`
	W    int      `json:"w,omitempty"`
	V    uint64   `json:"v"`
	Vs   []uint64 `json:"vs,omitempty"`
	Stub bool     `json:"s,omitempty"`
}

type ModelUF struct {
	Name string `json:"name"`
	Key  string `json:"key"`
	Val  uint64 `json:"val"`
}

type Violation struct {
	Kind      string      `json:"kind"` // assert | panic | fatal | deadlock | budget
	ID        string      `json:"id"`
	Msg       string      `json:"msg"`
	Stack     []string    `json:"stack"`
	Draws     []ModelDraw `json:"draws"`
	UFs       []ModelUF   `json:"ufs,omitempty"`
	Decisions []Decision  `json:"decisions"`
	PCSize    int         `json:"pc_size"`
	HasModel  bool        `json:"has_model"`
	Count     int         `json:"count"`
	Observes  []string    `json:"observes,omitempty"`
}

type PathSample struct {
	Outcome   string      `json:"outcome"`
	Decisions int         `json:"decisions"`
	Choices   string      `json:"choices"`
	PCSize    int         `json:"pc_size"`
	Steps     int64       `json:"steps"`
	Draws     []ModelDraw `json:"model,omitempty"`
	UFs       []ModelUF   `json:"ufs,omitempty"`
}

type oblStat struct {
	Seen       int64 `json:"seen"`
	Trivial    int64 `json:"trivially_true"`
	Discharged int64 `json:"discharged_by_solver"`
	Unknown    int64 `json:"unknown"`
	Violated   int64 `json:"violated"`
}

type ufRecord struct {
	name string
	args []Value
	app  *Term
}

type Explorer struct {
	cfg   Config
	prog  *ssa.Program
	entry *ssa.Function

	mu     sync.Mutex
	cond   *sync.Cond
	work   [][]Decision
	active int
	stop   bool

	paths           int64
	transitions     int64
	outcomes        map[string]int64
	obligations     map[string]*oblStat
	reached         map[string]int64
	unsupported     map[string]int64
	endMsgs         map[string]int64
	violations      []*Violation
	violIndex       map[string]*Violation
	unknownBranches int64
	samples         []PathSample
	funcs           map[string]int64
	totalSteps      int64
	goSkipped       int64
	implCache       map[implKey]bool
	truncated       bool
	buildMu         sync.Mutex
	forkSites       map[string]int64

	queries, qsat, qunsat, qunknown, qcache int64
	solverTime                              time.Duration
	solverErrors                            int64
}

func NewExplorer(cfg Config, prog *ssa.Program, entry *ssa.Function) *Explorer {
	ex := &Explorer{cfg: cfg, prog: prog, entry: entry,
		outcomes: map[string]int64{}, obligations: map[string]*oblStat{}, reached: map[string]int64{},
		unsupported: map[string]int64{}, endMsgs: map[string]int64{}, violIndex: map[string]*Violation{},
		funcs: map[string]int64{}, implCache: map[implKey]bool{}}
	ex.cond = sync.NewCond(&ex.mu)
	return ex
}

func (ex *Explorer) implCacheGet(k implKey) (bool, bool) {
	ex.mu.Lock()
	defer ex.mu.Unlock()
	r, ok := ex.implCache[k]
	return r, ok
}

func (ex *Explorer) implCachePut(k implKey, v bool) {
	ex.mu.Lock()
	ex.implCache[k] = v
	ex.mu.Unlock()
}

func (ex *Explorer) push(p []Decision) {
	ex.mu.Lock()
	ex.work = append(ex.work, p)
	ex.mu.Unlock()
	ex.cond.Signal()
}

func (ex *Explorer) noteForkSite(site string, n int) {
	ex.mu.Lock()
	if ex.forkSites == nil {
		ex.forkSites = map[string]int64{}
	}
	ex.forkSites[site] += int64(n)
	ex.mu.Unlock()
}

func (ex *Explorer) noteUnknownBranch() {
	ex.mu.Lock()
	ex.unknownBranches++
	ex.mu.Unlock()
}

func (ex *Explorer) obl(id string) *oblStat {
	o := ex.obligations[id]
	if o == nil {
		o = &oblStat{}
		ex.obligations[id] = o
	}
	return o
}

func (ex *Explorer) noteObligation(id string) {
	ex.mu.Lock()
	ex.obl(id).Seen++
	ex.mu.Unlock()
}

func (ex *Explorer) noteDischarged(id string, trivial bool) {
	ex.mu.Lock()
	if trivial {
		ex.obl(id).Trivial++
	} else {
		ex.obl(id).Discharged++
	}
	ex.mu.Unlock()
}

func (ex *Explorer) noteUnknownObligation(id string) {
	ex.mu.Lock()
	ex.obl(id).Unknown++
	ex.mu.Unlock()
}

func (in *Interp) stack() []string {
	var out []string
	for fr := in.curFrame; fr != nil && len(out) < 12; fr = fr.caller {
		s := fr.fn.String()
		if fr.callInstr != nil {
			s += " <- " + in.pos(fr.callInstr)
		}
		out = append(out, s)
	}
	return out
}

// modelFor asks the solver for a model of pc ∧ extra and renders the draws.
func (in *Interp) modelFor(extra []*Term) ([]ModelDraw, []ModelUF, bool) {
	var want []*Term
	seen := map[int]bool{}
	add := func(t *Term) {
		if t.op != OpConst && !seen[t.id] {
			seen[t.id] = true
			want = append(want, t)
		}
	}
	for _, d := range in.draws {
		if d.T != nil {
			add(d.T)
		}
		for _, t := range d.Ts {
			add(t)
		}
	}
	for _, u := range in.ufRecs {
		add(u.app)
		for _, t := range in.leafTerms(u.args) {
			add(t)
		}
	}
	r, m := in.solver.Check(in.pc, extra, want)
	if r != Sat || (len(want) > 0 && m == nil) {
		return nil, nil, false
	}
	val := func(t *Term) uint64 {
		if t.op == OpConst {
			return t.val
		}
		return m[t.id]
	}
	var draws []ModelDraw
	for _, d := range in.draws {
		md := ModelDraw{Kind: d.Kind, W: d.W, V: d.V, Stub: d.Stub}
		if d.T != nil {
			md.V = val(d.T)
		}
		if d.Ts != nil {
			md.Vs = make([]uint64, len(d.Ts))
			for i, t := range d.Ts {
				md.Vs[i] = val(t)
			}
		}
		draws = append(draws, md)
	}
	var ufs []ModelUF
	for _, u := range in.ufRecs {
		ufs = append(ufs, ModelUF{Name: u.name, Key: in.ufKey(u.args, val), Val: val(u.app)})
	}
	return draws, ufs, true
}

func (in *Interp) leafTerms(vs []Value) []*Term {
	var out []*Term
	for _, v := range vs {
		switch v := v.(type) {
		case *Term:
			out = append(out, v)
		case Str:
			out = append(out, v.sym...)
		case Slice:
			for i := 0; i < v.len; i++ {
				out = append(out, in.leafTerms([]Value{v.arr[i]})...)
			}
		case Array:
			for _, e := range v {
				out = append(out, in.leafTerms([]Value{e})...)
			}
		case Iface:
			if v.t != nil {
				out = append(out, in.leafTerms([]Value{v.v})...)
			}
		}
	}
	return out
}

// ufKey renders UF arguments under a model exactly like the native verifrt does.
func (in *Interp) ufKey(vs []Value, val func(*Term) uint64) string {
	var sb strings.Builder
	for i, v := range vs {
		if i > 0 {
			sb.WriteByte('|')
		}
		in.ufKeyArg(&sb, v, val)
	}
	return sb.String()
}

func (in *Interp) ufKeyArg(sb *strings.Builder, v Value, val func(*Term) uint64) {
	switch v := v.(type) {
	case *Term:
		if v.w == 0 {
			if val(v) == 1 {
				sb.WriteString("true")
			} else {
				sb.WriteString("false")
			}
		} else {
			fmt.Fprintf(sb, "%d", val(v))
		}
	case Str:
		sb.WriteString("x")
		for _, b := range in.strBytes(v) {
			fmt.Fprintf(sb, "%02x", val(b))
		}
	case Slice:
		isBytes := true
		for i := 0; i < v.len; i++ {
			if t, ok := v.arr[i].(*Term); !ok || t.w != 8 {
				isBytes = false
			}
		}
		if isBytes {
			sb.WriteString("x")
			for i := 0; i < v.len; i++ {
				fmt.Fprintf(sb, "%02x", val(v.arr[i].(*Term)))
			}
		} else {
			sb.WriteString("[")
			for i := 0; i < v.len; i++ {
				if i > 0 {
					sb.WriteByte(',')
				}
				in.ufKeyArg(sb, v.arr[i], val)
			}
			sb.WriteString("]")
		}
	case Array:
		sb.WriteString("x")
		for _, e := range v {
			fmt.Fprintf(sb, "%02x", val(e.(*Term)))
		}
	case Iface:
		if v.t == nil {
			sb.WriteString("nil")
		} else {
			in.ufKeyArg(sb, v.v, val)
		}
	default:
		sb.WriteString("?")
	}
}

func (in *Interp) reportViolation(kind, id string, extra *Term, caller *frame) {
	stack := in.stack()
	site := ""
	if len(stack) > 0 {
		site = stack[0]
	}
	key := kind + "|" + id + "|" + site
	ex := in.ex
	ex.mu.Lock()
	ex.obl(id).Violated++
	if v, ok := ex.violIndex[key]; ok && v.Count >= ex.cfg.MaxViolations {
		v.Count++
		ex.mu.Unlock()
		return
	}
	ex.mu.Unlock()
	var extras []*Term
	if extra != nil {
		extras = []*Term{extra}
	}
	draws, ufs, ok := in.modelFor(extras)
	v := &Violation{Kind: kind, ID: id, Stack: stack, Draws: draws, UFs: ufs, HasModel: ok, PCSize: len(in.pc), Count: 1,
		Decisions: append([]Decision{}, in.trace...)}
	ex.mu.Lock()
	if old, ok := ex.violIndex[key]; ok {
		old.Count++
		// keep a few distinct models per key
		n := 0
		for _, o := range ex.violations {
			if o.Kind == kind && o.ID == id {
				n++
			}
		}
		if n < ex.cfg.MaxViolations {
			ex.violations = append(ex.violations, v)
		}
	} else {
		ex.violIndex[key] = v
		ex.violations = append(ex.violations, v)
	}
	ex.mu.Unlock()
}

func choicesString(ds []Decision) string {
	var sb strings.Builder
	for i, d := range ds {
		if i >= 200 {
			sb.WriteString("…")
			break
		}
		if d.Choice < 10 {
			sb.WriteByte(byte('0' + d.Choice))
		} else {
			fmt.Fprintf(&sb, "(%d)", d.Choice)
		}
	}
	return sb.String()
}

// runPath executes the entry function once under the given decision prefix.
func (in *Interp) runPath(prefix []Decision) (outcome string, msg string) {
	in.resetPath(prefix)
	defer in.schedFinish()
	defer func() {
		r := recover()
		if r == nil {
			return
		}
		switch r := r.(type) {
		case pathEnd:
			outcome, msg = r.kind, r.msg
		case unsupportedErr:
			outcome, msg = "unsupported", r.msg+" @ "+strings.Join(in.errStack, " | ")
		case targetPanic:
			outcome = "panic"
			msg = describe(r.v)
			if i, ok := r.v.(Iface); ok && i.t != nil {
				func() {
					defer func() { recover() }()
					if s, ok := in.callMethodIfAny(nil, i, "Error"); ok {
						msg = describe(s)
					}
				}()
			}
		default:
			outcome = "engine-error"
			gs := string(debug.Stack())
			if len(gs) > 1800 {
				gs = gs[:1800] + "…"
			}
			msg = fmt.Sprintf("%v @ %s\n%s", r, strings.Join(in.errStack, " | "), gs)
		}
	}()
	in.callSSA(nil, nil, in.ex.entry, nil, nil)
	return "ok", ""
}

func (ex *Explorer) worker(id int, wg *sync.WaitGroup) {
	defer wg.Done()
	tt := NewTermTable()
	solver, err := NewSolver(tt, ex.cfg.SolverBin, ex.cfg.TimeoutMs)
	if err != nil {
		fmt.Fprintln(os.Stderr, "cannot start solver:", err)
		os.Exit(3)
	}
	if ex.cfg.SolverLog != "" {
		solver.logf, _ = os.Create(fmt.Sprintf("%s.%d.smt2", ex.cfg.SolverLog, id))
	}
	defer solver.Close()
	in := &Interp{prog: ex.prog, tt: tt, solver: solver, ex: ex, wid: id, funcsRun: map[*ssa.Function]int64{}, builtPkgs: map[*ssa.Package]bool{}}
	if rt := ex.prog.ImportedPackage("runtime"); rt != nil {
		if m := rt.Type("errorString"); m != nil {
			in.runtimeErrorString = m.Type()
		}
	}
	for {
		ex.mu.Lock()
		for len(ex.work) == 0 && ex.active > 0 && !ex.stop {
			ex.cond.Wait()
		}
		if ex.stop || (len(ex.work) == 0 && ex.active == 0) {
			ex.mu.Unlock()
			ex.cond.Broadcast()
			break
		}
		p := ex.work[len(ex.work)-1]
		ex.work = ex.work[:len(ex.work)-1]
		ex.active++
		ex.mu.Unlock()

		outcome, msg := in.runPath(p)
		if outcome == "panic" || outcome == "fatal" || outcome == "deadlock" || outcome == "budget" || outcome == "alloc" || outcome == "unwind" {
			id := outcome
			in.ex.noteObligation("no-" + id)
			in.reportViolationMsg(outcome, "no-"+id, msg)
		}

		ex.mu.Lock()
		ex.active--
		ex.paths++
		ex.transitions += int64(len(in.trace))
		ex.outcomes[outcome]++
		ex.totalSteps += in.steps
		ex.goSkipped += int64(in.goCount)
		if outcome == "unsupported" || outcome == "engine-error" {
			ex.unsupported[msg]++
		} else if msg != "" {
			ex.endMsgs[outcome+": "+msg]++
		}
		if outcome == "ok" {
			for k := range in.reached {
				ex.reached[k]++
			}
		}
		if len(ex.samples) < 6 && (outcome == "ok" || len(ex.samples) < 2) {
			ps := PathSample{Outcome: outcome, Decisions: len(in.trace), Choices: choicesString(in.trace), PCSize: len(in.pc), Steps: in.steps}
			ex.mu.Unlock()
			if outcome == "ok" {
				if d, u, ok := in.modelFor(nil); ok {
					ps.Draws = d
					ps.UFs = u
				}
			}
			ex.mu.Lock()
			ex.samples = append(ex.samples, ps)
		}
		if ex.cfg.MaxPaths > 0 && ex.paths >= ex.cfg.MaxPaths {
			ex.stop = true
			ex.truncated = true
		}
		if !ex.cfg.Deadline.IsZero() && time.Now().After(ex.cfg.Deadline) {
			ex.stop = true
			ex.truncated = true
		}
		ex.mu.Unlock()
		ex.cond.Broadcast()
	}
	ex.mu.Lock()
	for f, n := range in.funcsRun {
		ex.funcs[f.String()] += n
	}
	ex.queries += int64(solver.nQueries)
	ex.qsat += int64(solver.nSat)
	ex.qunsat += int64(solver.nUnsat)
	ex.qunknown += int64(solver.nUnknown)
	ex.qcache += int64(solver.nCacheHit)
	ex.solverTime += solver.solveTime
	ex.solverErrors += int64(solver.errors)
	ex.mu.Unlock()
}

func (in *Interp) reportViolationMsg(kind, id, msg string) {
	stack := in.panicStack
	if kind != "panic" || stack == nil {
		stack = in.stack()
	}
	ex := in.ex
	key := kind + "|" + id + "|" + msg
	if kind == "panic" && len(stack) > 0 {
		// one finding per panicking call site, whatever the message's numbers
		key = kind + "|" + id + "|" + stack[0]
	}
	ex.mu.Lock()
	ex.obl(id).Violated++
	if v, ok := ex.violIndex[key]; ok {
		v.Count++
		ex.mu.Unlock()
		return
	}
	ex.mu.Unlock()
	draws, ufs, ok := in.modelFor(nil)
	v := &Violation{Kind: kind, ID: id, Msg: msg, Stack: stack, Draws: draws, UFs: ufs, HasModel: ok, PCSize: len(in.pc), Count: 1,
		Decisions: append([]Decision{}, in.trace...)}
	ex.mu.Lock()
	if old, ok := ex.violIndex[key]; ok {
		old.Count++
	} else {
		ex.violIndex[key] = v
		ex.violations = append(ex.violations, v)
	}
	ex.mu.Unlock()
}

func (ex *Explorer) Run() {
	ex.work = [][]Decision{nil}
	var wg sync.WaitGroup
	n := ex.cfg.Workers
	if n < 1 {
		n = 1
	}
	for i := 0; i < n; i++ {
		wg.Add(1)
		go ex.worker(i, &wg)
	}
	wg.Wait()
}

func sortedCounts(m map[string]int64, max int) []string {
	type kv struct {
		k string
		v int64
	}
	var l []kv
	for k, v := range m {
		l = append(l, kv{k, v})
	}
	sort.Slice(l, func(i, j int) bool { return l[i].v > l[j].v })
	var out []string
	for i, e := range l {
		if i >= max {
			break
		}
		out = append(out, fmt.Sprintf("%d× %s", e.v, e.k))
	}
	return out
}

// buildFor builds the SSA bodies of fn's package on first use (go/ssa's
// Package.Build is idempotent and serialised by its own sync.Once).
func (ex *Explorer) buildFor(fn *ssa.Function) {
	f := fn
	for f.Parent() != nil {
		f = f.Parent()
	}
	if o := f.Origin(); o != nil {
		f = o
	}
	if f.Pkg != nil {
		ex.buildMu.Lock()
		f.Pkg.Build()
		ex.buildMu.Unlock()
	}
}
