package main

import (
	"fmt"
	"go/constant"
	"go/token"
	"go/types"
	"math"
	"unicode/utf8"

	"golang.org/x/tools/go/ssa"
)

func constBool(c *ssa.Const) bool     { return constant.BoolVal(c.Value) }
func constString(c *ssa.Const) string { return constant.StringVal(c.Value) }

func (in *Interp) unop(fr *frame, instr *ssa.UnOp, x Value) Value {
	tt := in.tt
	switch instr.Op {
	case token.MUL: // load
		if sp, ok := x.(SymPtr); ok {
			return in.symLoad(sp)
		}
		p := asPtr(x)
		in.checkNilPtr(p)
		v := load(p)
		// *(*string)(unsafe.Pointer(&bytes)) and the reverse: reinterpretation of the header as a copy
		if sl, ok := v.(Slice); ok {
			if b, ok := instr.Type().Underlying().(*types.Basic); ok && b.Info()&types.IsString != 0 {
				bs := make([]*Term, sl.len)
				for i := 0; i < sl.len; i++ {
					bs[i] = sl.arr[i].(*Term)
				}
				return normStr(bs, 0)
			}
		} else if s, ok := v.(Str); ok {
			if st, ok := instr.Type().Underlying().(*types.Slice); ok {
				if eb, ok := st.Elem().Underlying().(*types.Basic); ok && eb.Kind() == types.Uint8 {
					bs := in.strBytes(s)
					arr := make([]Value, len(bs))
					for i, b := range bs {
						arr[i] = b
					}
					return Slice{arr: arr, len: len(arr)}
				}
			}
		}
		return v
	case token.ARROW:
		rc, _ := x.(*Chan)
		in.schedWaitRecv(rc)
		v, ok := in.chanRecv(rc, true)
		if instr.CommaOk {
			if v == nil {
				v = in.zero(instr.X.Type().Underlying().(*types.Chan).Elem())
			}
			return Tuple{v, tt.Bool(ok)}
		}
		if v == nil {
			v = in.zero(instr.X.Type().Underlying().(*types.Chan).Elem())
		}
		return v
	case token.SUB:
		switch x := x.(type) {
		case *Term:
			return tt.BvNeg(x)
		case float64:
			return -x
		case complex128:
			return -x
		}
	case token.NOT:
		return tt.Not(x.(*Term))
	case token.XOR:
		return tt.BvNot(x.(*Term))
	}
	if p, ok := x.(Poison); ok {
		return p
	}
	panic(fmt.Sprintf("invalid unary op %s %T", instr.Op, x))
}

func (in *Interp) binop(op token.Token, t types.Type, x, y Value) Value {
	tt := in.tt
	if p, ok := x.(Poison); ok {
		if in.initMode > 0 {
			return p
		}
		panic(unsupported("operand poisoned: " + p.why))
	}
	if p, ok := y.(Poison); ok {
		if in.initMode > 0 {
			return p
		}
		panic(unsupported("operand poisoned: " + p.why))
	}
	switch op {
	case token.EQL:
		return in.eqOrNil(t, x, y)
	case token.NEQ:
		return tt.Not(in.eqOrNil(t, x, y))
	}
	if fx, fy, ok := in.floatIntPair(x, y); ok {
		switch op {
		case token.LSS:
			return tt.Cmp(OpBvSlt, fx, fy)
		case token.LEQ:
			return tt.Cmp(OpBvSle, fx, fy)
		case token.GTR:
			return tt.Cmp(OpBvSlt, fy, fx)
		case token.GEQ:
			return tt.Cmp(OpBvSle, fy, fx)
		}
		panic(unsupported("arithmetic on a symbolic float"))
	}
	switch x := x.(type) {
	case *Term:
		y := y.(*Term)
		if x.w == 0 {
			switch op {
			case token.AND, token.LAND:
				return tt.And(x, y)
			case token.OR, token.LOR:
				return tt.Or(x, y)
			}
			panic(fmt.Sprintf("bool binop %s", op))
		}
		signed := isSigned(t)
		switch op {
		case token.ADD:
			return tt.Bin(OpBvAdd, x, y)
		case token.SUB:
			return tt.Bin(OpBvSub, x, y)
		case token.MUL:
			return tt.Bin(OpBvMul, x, y)
		case token.QUO, token.REM:
			if y.op == OpConst {
				if y.val == 0 {
					in.throw("integer divide by zero")
				}
			} else if in.forkBool(tt.Eq(y, tt.Const(y.w, 0))) {
				in.throw("integer divide by zero")
			}
			if op == token.QUO {
				if signed {
					return tt.Bin(OpBvSdiv, x, y)
				}
				return tt.Bin(OpBvUdiv, x, y)
			}
			if signed {
				return tt.Bin(OpBvSrem, x, y)
			}
			return tt.Bin(OpBvUrem, x, y)
		case token.AND:
			return tt.Bin(OpBvAnd, x, y)
		case token.OR:
			return tt.Bin(OpBvOr, x, y)
		case token.XOR:
			return tt.Bin(OpBvXor, x, y)
		case token.AND_NOT:
			return tt.Bin(OpBvAnd, x, tt.BvNot(y))
		case token.SHL, token.SHR:
			return in.shift(op, signed, x, y)
		case token.LSS:
			if signed {
				return tt.Cmp(OpBvSlt, x, y)
			}
			return tt.Cmp(OpBvUlt, x, y)
		case token.LEQ:
			if signed {
				return tt.Cmp(OpBvSle, x, y)
			}
			return tt.Cmp(OpBvUle, x, y)
		case token.GTR:
			if signed {
				return tt.Cmp(OpBvSlt, y, x)
			}
			return tt.Cmp(OpBvUlt, y, x)
		case token.GEQ:
			if signed {
				return tt.Cmp(OpBvSle, y, x)
			}
			return tt.Cmp(OpBvUle, y, x)
		}
	case float64:
		y := y.(float64)
		if b, ok := t.Underlying().(*types.Basic); ok && b.Kind() == types.Float32 {
			switch op {
			case token.ADD:
				return float64(float32(x) + float32(y))
			case token.SUB:
				return float64(float32(x) - float32(y))
			case token.MUL:
				return float64(float32(x) * float32(y))
			case token.QUO:
				return float64(float32(x) / float32(y))
			}
		}
		switch op {
		case token.ADD:
			return x + y
		case token.SUB:
			return x - y
		case token.MUL:
			return x * y
		case token.QUO:
			return x / y
		case token.LSS:
			return tt.Bool(x < y)
		case token.LEQ:
			return tt.Bool(x <= y)
		case token.GTR:
			return tt.Bool(x > y)
		case token.GEQ:
			return tt.Bool(x >= y)
		}
	case Str:
		y := y.(Str)
		switch op {
		case token.ADD:
			return in.strConcat(x, y)
		case token.LSS:
			return in.strLess(x, y)
		case token.LEQ:
			return tt.Not(in.strLess(y, x))
		case token.GTR:
			return in.strLess(y, x)
		case token.GEQ:
			return tt.Not(in.strLess(x, y))
		}
	}
	panic(unsupported(fmt.Sprintf("binop %s on %T", op, x)))
}

func (in *Interp) strConcat(x, y Str) Str {
	if x.sym == nil && y.sym == nil {
		return Str{s: x.s + y.s}
	}
	if x.Len() == 0 {
		return y
	}
	if y.Len() == 0 {
		return x
	}
	b := append(append([]*Term{}, in.strBytes(x)...), in.strBytes(y)...)
	return Str{sym: b}
}

// shift implements Go shift semantics: count is unsigned (or a non-negative
// signed value: negative count panics), counts >= width give 0 / sign fill.
func (in *Interp) shift(op token.Token, signed bool, x, y *Term) Value {
	tt := in.tt
	// normalise count to x's width, saturating
	var cnt *Term
	switch {
	case y.w == x.w:
		cnt = y
	case y.w < x.w:
		cnt = tt.Zext(y, x.w)
	default:
		// wider count: saturate to width if any high bit is set
		hi := tt.Extract(y, y.w-1, x.w)
		lo := tt.Extract(y, x.w-1, 0)
		cnt = tt.Ite(tt.Eq(hi, tt.ConstHi(y.w-x.w, 0)), lo, tt.Const(x.w, uint64(x.w)))
	}
	switch op {
	case token.SHL:
		return tt.Bin(OpBvShl, x, cnt)
	default:
		if signed {
			return tt.Bin(OpBvAshr, x, cnt)
		}
		return tt.Bin(OpBvLshr, x, cnt)
	}
}

// ConstHi: constant of width that may exceed 64 only when value is zero.
func (tt *TermTable) ConstHi(w int, v uint64) *Term {
	if w <= 64 {
		return tt.Const(w, v)
	}
	panic("ConstHi: width > 64")
}

func isNilValue(v Value) (bool, bool) {
	switch v := v.(type) {
	case *Value:
		return v == nil, true
	case Slice:
		return v.null, true
	case *Map:
		return v == nil, true
	case *Chan:
		return v == nil, true
	case Iface:
		return v.t == nil, true
	case *ssa.Function:
		return v == nil, true
	case *Closure:
		return v == nil, true
	case *ssa.Builtin:
		return false, true
	case UnsafePtr:
		if v.v == nil {
			return true, true
		}
		if p, ok := v.v.(*Value); ok {
			return p == nil, true
		}
		return false, true
	}
	return false, false
}

func (in *Interp) eqOrNil(t types.Type, x, y Value) *Term {
	tt := in.tt
	switch t.Underlying().(type) {
	case *types.Slice, *types.Map, *types.Signature:
		// comparison against nil only
		xn, _ := isNilValue(x)
		yn, _ := isNilValue(y)
		if _, isNilConst := y.(Slice); isNilConst || true {
			_ = yn
		}
		// one side is the nil constant (zero value)
		if isZeroNil(y) {
			return tt.Bool(xn)
		}
		if isZeroNil(x) {
			return tt.Bool(yn)
		}
		panic(targetPanic{v: in.runtimeErr("comparing uncomparable type " + t.String())})
	}
	return in.eqTerm(t, x, y)
}

func isZeroNil(v Value) bool {
	n, ok := isNilValue(v)
	return ok && n
}

// ---------------------------------------------------------------- conversions

func (in *Interp) conv(tdst, tsrc types.Type, x Value) Value {
	tt := in.tt
	if p, ok := x.(Poison); ok {
		return p
	}
	ud, us := tdst.Underlying(), tsrc.Underlying()
	if tp, ok := tdst.(*types.TypeParam); ok {
		panic(unsupported("conversion to type parameter " + tp.String()))
	}
	switch us := us.(type) {
	case *types.Pointer:
		switch ud := ud.(type) {
		case *types.Pointer:
			return x
		case *types.Basic:
			if ud.Kind() == types.UnsafePointer {
				return UnsafePtr{v: x}
			}
		}
	case *types.Slice:
		switch ud := ud.(type) {
		case *types.Basic: // []byte / []rune -> string
			sl := x.(Slice)
			eb := us.Elem().Underlying().(*types.Basic)
			if eb.Kind() == types.Uint8 || eb.Kind() == types.Byte {
				b := make([]*Term, sl.len)
				for i := 0; i < sl.len; i++ {
					b[i] = sl.arr[i].(*Term)
				}
				return normStr(b, 0)
			}
			if eb.Kind() == types.Int32 {
				var rs []rune
				for i := 0; i < sl.len; i++ {
					rs = append(rs, rune(in.concretize(sl.arr[i].(*Term))))
				}
				return mkStr(string(rs))
			}
			_ = ud
		case *types.Slice:
			return x
		case *types.Array: // slice to array (go1.20)
			sl := x.(Slice)
			n := int(ud.Len())
			if sl.len < n {
				in.throw("cannot convert slice to array: length mismatch")
			}
			a := make(Array, n)
			for i := range a {
				a[i] = copyVal(sl.arr[i])
			}
			return a
		case *types.Pointer:
			panic(unsupported("slice to array pointer via Convert"))
		}
	case *types.Basic:
		if us.Kind() == types.UnsafePointer {
			switch ud := ud.(type) {
			case *types.Pointer:
				u := x.(UnsafePtr)
				if u.v == nil {
					return (*Value)(nil)
				}
				if p, ok := u.v.(*Value); ok {
					return p
				}
				panic(unsupported(fmt.Sprintf("unsafe.Pointer -> %s holding %T", tdst, u.v)))
			case *types.Basic:
				if ud.Kind() == types.UnsafePointer {
					return x
				}
				if ud.Kind() == types.Uintptr {
					panic(unsupported("unsafe.Pointer -> uintptr"))
				}
			}
		}
		if ud, ok := ud.(*types.Basic); ok && ud.Kind() == types.UnsafePointer {
			if us.Kind() == types.Uintptr {
				panic(unsupported("uintptr -> unsafe.Pointer"))
			}
		}
		// string -> []byte / []rune
		if us.Info()&types.IsString != 0 {
			s := x.(Str)
			switch ud := ud.(type) {
			case *types.Slice:
				eb := ud.Elem().Underlying().(*types.Basic)
				if eb.Kind() == types.Uint8 {
					bs := in.strBytes(s)
					arr := make([]Value, len(bs))
					for i, b := range bs {
						arr[i] = b
					}
					return Slice{arr: arr, len: len(arr)}
				}
				if eb.Kind() == types.Int32 {
					cs := in.concStr(s)
					var arr []Value
					for _, r := range cs {
						arr = append(arr, tt.Const(32, uint64(r)))
					}
					return Slice{arr: arr, len: len(arr)}
				}
			case *types.Basic:
				if ud.Info()&types.IsString != 0 {
					return x
				}
			}
		}
		if us.Info()&types.IsInteger != 0 {
			xt := x.(*Term)
			if ud, ok := ud.(*types.Basic); ok {
				switch {
				case ud.Info()&types.IsInteger != 0:
					wd := in.width(ud)
					if wd <= xt.w {
						return tt.Extract(xt, wd-1, 0)
					}
					if isSigned(us) {
						return tt.Sext(xt, wd)
					}
					return tt.Zext(xt, wd)
				case ud.Info()&types.IsFloat != 0:
					if xt.op != OpConst && ud.Kind() == types.Float64 {
						// float64 of a symbolic integer: kept as a tagged integer (exact for |x| < 2^53,
						// which the harness must assume); only conversion back and comparisons are modelled
						if isSigned(us) {
							return FloatInt{t: tt.Sext(xt, 64)}
						}
						return FloatInt{t: tt.Zext(xt, 64)}
					}
					v := in.concretize(xt)
					var f float64
					if isSigned(us) {
						f = float64((&Term{w: xt.w, val: v}).sval())
					} else {
						f = float64(v)
					}
					if ud.Kind() == types.Float32 {
						f = float64(float32(f))
					}
					return f
				case ud.Info()&types.IsString != 0:
					v := in.concretize(xt)
					var r rune
					if isSigned(us) {
						sv := (&Term{w: xt.w, val: v}).sval()
						if sv < 0 || sv > utf8.MaxRune {
							r = utf8.RuneError
						} else {
							r = rune(sv)
						}
					} else if v > utf8.MaxRune {
						r = utf8.RuneError
					} else {
						r = rune(v)
					}
					return mkStr(string(r))
				}
			}
		}
		if fi, ok := x.(FloatInt); ok && us.Info()&types.IsFloat != 0 {
			if ud, ok := ud.(*types.Basic); ok {
				switch {
				case ud.Info()&types.IsFloat != 0 && ud.Kind() == types.Float64:
					return fi
				case ud.Info()&types.IsInteger != 0:
					w := in.width(ud)
					if w >= 64 {
						return fi.t
					}
					return tt.Extract(fi.t, w-1, 0)
				}
			}
			panic(unsupported("conversion of a symbolic float"))
		}
		if us.Info()&types.IsFloat != 0 {
			f := x.(float64)
			if ud, ok := ud.(*types.Basic); ok {
				switch {
				case ud.Info()&types.IsFloat != 0:
					if ud.Kind() == types.Float32 {
						return float64(float32(f))
					}
					return f
				case ud.Info()&types.IsInteger != 0:
					w := in.width(ud)
					if ud.Info()&types.IsUnsigned != 0 {
						if f < 0 || math.IsNaN(f) {
							return tt.Const(w, uint64(int64(f)))
						}
						return tt.Const(w, uint64(f))
					}
					return tt.Const(w, uint64(int64(f)))
				}
			}
		}
		if us.Info()&types.IsComplex != 0 {
			return x
		}
		if us.Info()&types.IsBoolean != 0 {
			return x
		}
	case *types.Signature, *types.Map, *types.Chan, *types.Struct, *types.Array, *types.Interface:
		return x
	}
	panic(unsupported(fmt.Sprintf("conversion %s -> %s", tsrc, tdst)))
}

// concStr concretises every byte of s.
func (in *Interp) concStr(s Str) string {
	if s.sym == nil {
		return s.s
	}
	b := make([]byte, len(s.sym))
	for i, t := range s.sym {
		b[i] = byte(in.concretize(t))
	}
	return string(b)
}

// ---------------------------------------------------------------- slicing

func (in *Interp) sliceOp(instr *ssa.Slice, x, lo, hi, max Value) Value {
	var length, capacity int
	var isStr bool
	var str Str
	var arr []Value
	null := false
	switch x := x.(type) {
	case Str:
		isStr = true
		str = x
		length = x.Len()
		capacity = length
	case Slice:
		arr = x.arr
		length = x.len
		capacity = len(x.arr)
		null = x.null
	case *Value:
		in.checkNilPtr(x)
		a := (*x).(Array)
		arr = []Value(a)
		length = len(a)
		capacity = len(a)
	case Poison:
		panic(unsupported("slice of poisoned value: " + x.why))
	default:
		panic(fmt.Sprintf("slice: unexpected X type: %T", x))
	}
	tt := in.tt
	// Evaluate bounds as terms, check lo <= hi <= max <= cap, then concretise.
	w := 64
	loT := tt.Const(w, 0)
	if lo != nil {
		loT = in.toInt64Term(lo.(*Term), instr.Low.Type())
	}
	limit := capacity
	if isStr {
		limit = length
	}
	var hiT *Term
	if hi != nil {
		hiT = in.toInt64Term(hi.(*Term), instr.High.Type())
	} else {
		hiT = tt.Const(w, uint64(length))
	}
	maxT := tt.Const(w, uint64(limit))
	if max != nil {
		maxT = in.toInt64Term(max.(*Term), instr.Max.Type())
	}
	ok := tt.AndN(
		tt.Cmp(OpBvSle, tt.Const(w, 0), loT),
		tt.Cmp(OpBvSle, loT, hiT),
		tt.Cmp(OpBvSle, hiT, maxT),
		tt.Cmp(OpBvSle, maxT, tt.Const(w, uint64(limit))),
	)
	if !in.forkBool(ok) {
		in.throw(fmt.Sprintf("slice bounds out of range [%s:%s:%s] with capacity %d", loT, hiT, maxT, limit))
	}
	l := int(int64(in.concretize(loT)))
	h := int(int64(in.concretize(hiT)))
	m := int(int64(in.concretize(maxT)))
	if isStr {
		if str.sym != nil {
			return normStr(str.sym[l:h], 0)
		}
		return Str{s: str.s[l:h]}
	}
	if null && h == 0 {
		return Slice{null: true}
	}
	return Slice{arr: arr[l:m:m], len: h - l}
}

func (in *Interp) toInt64Term(t *Term, ty types.Type) *Term {
	if t.w == 64 {
		return t
	}
	if isSigned(ty) {
		return in.tt.Sext(t, 64)
	}
	return in.tt.Zext(t, 64)
}

// ---------------------------------------------------------------- maps

func (in *Interp) mapFind(m *Map, key Value) int {
	if m == nil || len(m.entries) == 0 {
		return -1
	}
	var conds []*Term
	var idxs []int
	none := in.tt.tTrue
	for i, e := range m.entries {
		eq := in.eqTerm(m.kt, key, e.k)
		if eq.IsTrue() {
			return i
		}
		if eq.IsFalse() {
			continue
		}
		conds = append(conds, eq)
		idxs = append(idxs, i)
		none = in.tt.And(none, in.tt.Not(eq))
	}
	if len(conds) == 0 {
		return -1
	}
	conds = append(conds, none)
	c := in.fork(conds, 0)
	if c == len(conds)-1 {
		return -1
	}
	return idxs[c]
}

func (in *Interp) checkHashable(kt types.Type, key Value) {
	if i, ok := key.(Iface); ok && i.t != nil {
		switch i.t.Underlying().(type) {
		case *types.Slice, *types.Map, *types.Signature:
			panic(targetPanic{v: in.runtimeErr("runtime error: hash of unhashable type " + i.t.String())})
		}
	}
}

func (in *Interp) mapSet(m *Map, key, val Value) {
	in.checkHashable(m.kt, key)
	i := in.mapFind(m, key)
	if i >= 0 {
		m.entries[i].v = copyVal(val)
		return
	}
	m.entries = append(m.entries, mapEntry{k: copyVal(key), v: copyVal(val)})
}

func (in *Interp) mapDelete(m *Map, key Value) {
	if m == nil {
		return
	}
	i := in.mapFind(m, key)
	if i >= 0 {
		m.entries = append(m.entries[:i:i], m.entries[i+1:]...)
	}
}

func (in *Interp) lookup(instr *ssa.Lookup, x, idx Value) Value {
	switch x := x.(type) {
	case *Map:
		vt := instr.X.Type().Underlying().(*types.Map).Elem()
		var v Value
		found := false
		if x != nil {
			in.checkHashable(x.kt, idx)
			if i := in.mapFind(x, idx); i >= 0 {
				v = copyVal(x.entries[i].v)
				found = true
			}
		}
		if !found {
			v = in.zero(vt)
		}
		if instr.CommaOk {
			return Tuple{v, in.tt.Bool(found)}
		}
		return v
	case Str:
		return in.strIndex(x, idx.(*Term), instr.Index.Type())
	case Poison:
		panic(unsupported("lookup in poisoned map: " + x.why))
	}
	panic(fmt.Sprintf("unexpected x type in Lookup: %T", x))
}

// ---------------------------------------------------------------- range

func (in *Interp) rangeIter(fr *frame, x Value) *Iter {
	switch x := x.(type) {
	case *Map:
		it := &Iter{m: x}
		if x != nil {
			it.keys = append(it.keys, x.entries...)
			if len(it.keys) > 1 && in.ex.cfg.MapPerm && !in.isHarnessFn(fr.fn) {
				in.permute(it.keys)
			}
		}
		return it
	case Str:
		return &Iter{isSt: true, str: x}
	case Poison:
		panic(unsupported("range over poisoned value: " + x.why))
	}
	panic(fmt.Sprintf("cannot range over %T", x))
}

// permute forks over iteration orders: all permutations for <= 3 entries,
// rotations and their reversals beyond.
func (in *Interp) permute(keys []mapEntry) {
	n := len(keys)
	if n <= 3 {
		nperm := 1
		for i := 2; i <= n; i++ {
			nperm *= i
		}
		c := in.choose(nperm)
		// decode permutation index (Lehmer code)
		avail := append([]mapEntry{}, keys...)
		for i := 0; i < n; i++ {
			f := 1
			for j := 2; j <= n-1-i; j++ {
				f *= j
			}
			k := c / f
			c = c % f
			keys[i] = avail[k]
			avail = append(avail[:k], avail[k+1:]...)
		}
		return
	}
	c := in.choose(2 * n)
	rot := c % n
	tmp := append(append([]mapEntry{}, keys[rot:]...), keys[:rot]...)
	if c >= n {
		for i, j := 0, len(tmp)-1; i < j; i, j = i+1, j-1 {
			tmp[i], tmp[j] = tmp[j], tmp[i]
		}
	}
	copy(keys, tmp)
}

func (in *Interp) choose(n int) int {
	c := in.forkFree(n)
	in.addDraw(Draw{Kind: "choose", V: uint64(c)})
	return c
}

func (in *Interp) iterNext(it *Iter, instr *ssa.Next) Value {
	tt := in.tt
	if it.isSt {
		if it.pos >= it.str.Len() {
			return Tuple{tt.Bool(false), tt.Const(64, 0), tt.Const(32, 0)}
		}
		if it.str.sym == nil {
			r, n := utf8.DecodeRuneInString(it.str.s[it.pos:])
			res := Tuple{tt.Bool(true), tt.Const(64, uint64(it.pos)), tt.Const(32, uint64(r))}
			it.pos += n
			return res
		}
		b := it.str.sym[it.pos]
		if b.op == OpConst && b.val >= 0x80 {
			// concrete multi-byte sequence inside a symbolic string: need the following bytes concrete too
			var bs []byte
			for j := it.pos; j < len(it.str.sym) && j < it.pos+4; j++ {
				if it.str.sym[j].op != OpConst {
					break
				}
				bs = append(bs, byte(it.str.sym[j].val))
			}
			r, n := utf8.DecodeRune(bs)
			res := Tuple{tt.Bool(true), tt.Const(64, uint64(it.pos)), tt.Const(32, uint64(r))}
			it.pos += n
			return res
		}
		if !in.forkBool(tt.Cmp(OpBvUlt, b, tt.Const(8, 0x80))) {
			panic(unsupported("range over string with symbolic non-ASCII byte"))
		}
		res := Tuple{tt.Bool(true), tt.Const(64, uint64(it.pos)), tt.Zext(b, 32)}
		it.pos++
		return res
	}
	for it.idx < len(it.keys) {
		e := it.keys[it.idx]
		it.idx++
		// skip entries deleted since the iteration started; pick up current value
		cur := -1
		for i := range it.m.entries {
			// identity of the entry: same key value object (syntactic)
			if sameKey(it.m.entries[i].k, e.k) {
				cur = i
				break
			}
		}
		if cur < 0 {
			continue
		}
		return Tuple{tt.Bool(true), copyVal(e.k), copyVal(it.m.entries[cur].v)}
	}
	var kz, vz Value
	return Tuple{tt.Bool(false), kz, vz}
}

// sameKey: syntactic identity of two key values (used only to re-find an
// entry of the same map, whose keys are pairwise distinct).
func sameKey(a, b Value) bool {
	switch a := a.(type) {
	case *Term:
		bt, ok := b.(*Term)
		return ok && a == bt
	case Str:
		bs, ok := b.(Str)
		if !ok || a.Len() != bs.Len() {
			return false
		}
		if a.sym == nil && bs.sym == nil {
			return a.s == bs.s
		}
		if a.sym == nil || bs.sym == nil {
			return false
		}
		for i := range a.sym {
			if a.sym[i] != bs.sym[i] {
				return false
			}
		}
		return true
	case *Value:
		bp, ok := b.(*Value)
		return ok && a == bp
	case Struct:
		bs, ok := b.(Struct)
		if !ok || len(a) != len(bs) {
			return false
		}
		for i := range a {
			if !sameKey(a[i], bs[i]) {
				return false
			}
		}
		return true
	case Array:
		bs, ok := b.(Array)
		if !ok || len(a) != len(bs) {
			return false
		}
		for i := range a {
			if !sameKey(a[i], bs[i]) {
				return false
			}
		}
		return true
	case Iface:
		bi, ok := b.(Iface)
		if !ok {
			return false
		}
		if a.t == nil || bi.t == nil {
			return a.t == nil && bi.t == nil
		}
		return types.Identical(a.t, bi.t) && sameKey(a.v, bi.v)
	case float64:
		bf, ok := b.(float64)
		return ok && a == bf
	case *Chan:
		bc, ok := b.(*Chan)
		return ok && a == bc
	}
	return false
}

// ---------------------------------------------------------------- channels

func (in *Interp) chanSend(c *Chan, v Value, blocking bool) bool {
	if c == nil {
		if blocking {
			panic(pathEnd{kind: "deadlock", msg: "send on nil channel"})
		}
		return false
	}
	if c.closed {
		panic(targetPanic{v: in.runtimeErr("send on closed channel")})
	}
	if len(c.buf) < c.cap || (c.cap == 0 && in.ex.cfg.UnbufferedAsOne && len(c.buf) == 0) {
		c.buf = append(c.buf, copyVal(v))
		return true
	}
	if blocking {
		panic(pathEnd{kind: "deadlock", msg: "send on full channel with no receiver (single goroutine)"})
	}
	return false
}

func (in *Interp) chanRecv(c *Chan, blocking bool) (Value, bool) {
	if c == nil {
		if blocking {
			panic(pathEnd{kind: "deadlock", msg: "receive on nil channel"})
		}
		return nil, false
	}
	if len(c.buf) > 0 {
		v := c.buf[0]
		c.buf = c.buf[1:]
		return v, true
	}
	if c.closed {
		return nil, false
	}
	if blocking {
		panic(pathEnd{kind: "deadlock", msg: "receive on empty channel (single goroutine)"})
	}
	return nil, false
}

func (in *Interp) selectOp(fr *frame, instr *ssa.Select) Value {
	tt := in.tt
	in.schedWaitSelect(fr, instr)
	chosen := -1
	var recv Value
	recvOk := false
	for i, st := range instr.States {
		c, _ := fr.get(st.Chan).(*Chan)
		if st.Dir == types.RecvOnly {
			if c != nil && (len(c.buf) > 0 || c.closed) {
				recv, recvOk = in.chanRecv(c, false)
				chosen = i
				break
			}
		} else {
			if c != nil && (c.closed || len(c.buf) < c.cap || (c.cap == 0 && in.ex.cfg.UnbufferedAsOne && len(c.buf) == 0)) {
				in.chanSend(c, fr.get(st.Send), false)
				chosen = i
				break
			}
		}
	}
	if chosen == -1 && instr.Blocking {
		panic(pathEnd{kind: "deadlock", msg: "select with no ready case (single goroutine) at " + in.pos(instr)})
	}
	r := Tuple{tt.Const(64, uint64(int64(chosen))), tt.Bool(recvOk)}
	for i, st := range instr.States {
		if st.Dir == types.RecvOnly {
			var v Value
			if i == chosen && recvOk {
				v = recv
			} else {
				v = in.zero(st.Chan.Type().Underlying().(*types.Chan).Elem())
			}
			r = append(r, v)
		}
	}
	return r
}
