package main

// Cooperative scheduler for `go` statements (flag -sched).
//
// Every goroutine of the program under analysis runs on its own host goroutine,
// but only the holder of the baton executes; the interpreter state is therefore
// still touched by one host goroutine at a time.  Control changes hands only at
// *scheduling points*: a `go` statement, Mutex/RWMutex acquisition, channel
// send / receive / select, WaitGroup.Wait, time.Sleep, runtime.Gosched and the
// verifrt.Sched / verifrt.Settle intrinsics.  For data-race-free code (shared
// state touched under a lock or through channels) that is where behaviours can
// differ.  At a scheduling point the next goroutine is a *decision* among the
// runnable ones (forkFree): the explorer enumerates schedules exactly like
// other branches, and the decision prefix replays a schedule deterministically.
//
// Preemption bound (-preempt N, default 2): a switch away from a goroutine that
// could itself continue is a preemption; once a path has used N of them, a
// goroutine that can continue does continue.  Switches forced by blocking or by
// a goroutine ending are never counted.  N is part of the stated bound.
//
// A path ends when the entry goroutine returns (the others are discarded), when
// any goroutine ends the path (assertion, panic, unsupported), or with outcome
// "deadlock" when nobody is runnable.

import (
	"fmt"
	"go/types"
	"strings"

	"golang.org/x/tools/go/ssa"
)

type gor struct {
	id     int
	resume chan struct{}
	kill   chan struct{}
	exited chan struct{}
	done   bool
	ready  func() bool // nil: runnable
	what   string
	// per-goroutine interpreter registers
	frame      *frame
	depth      int
	inStub     int
	initMode   int
	panicStack []string
}

type schedState struct {
	on          bool
	gos         []*gor
	cur         *gor
	crossPanic  interface{}
	preemptions int
	locks       map[*Value]int // 0 free, -1 write-locked, n>0 readers
	wgCount     map[*Value]int
}

type abortPath struct{}

func (in *Interp) schedReset() {
	in.sc = schedState{}
	if !in.ex.cfg.Sched {
		return
	}
	in.sc.on = true
	in.sc.locks = map[*Value]int{}
	in.sc.wgCount = map[*Value]int{}
	main := &gor{id: 0, resume: make(chan struct{})}
	in.sc.gos = []*gor{main}
	in.sc.cur = main
}

// schedFinish discards, one at a time, the goroutines still parked when the path is over
func (in *Interp) schedFinish() {
	if !in.sc.on {
		return
	}
	for _, g := range in.sc.gos[1:] {
		close(g.kill)
		<-g.exited
	}
	in.sc.on = false
}

func (in *Interp) saveRegs(g *gor) {
	g.frame, g.depth, g.inStub, g.initMode, g.panicStack = in.curFrame, in.depth, in.inStub, in.initMode, in.panicStack
}

func (in *Interp) loadRegs(g *gor) {
	in.curFrame, in.depth, in.inStub, in.initMode, in.panicStack = g.frame, g.depth, g.inStub, g.initMode, g.panicStack
}

func (in *Interp) runnable() []*gor {
	var run []*gor
	for _, g := range in.sc.gos {
		if !g.done && (g.ready == nil || g.ready()) {
			run = append(run, g)
		}
	}
	return run
}

func (in *Interp) blockedSummary() string {
	var parts []string
	for _, g := range in.sc.gos {
		if !g.done {
			parts = append(parts, fmt.Sprintf("g%d:%s", g.id, g.what))
		}
	}
	return strings.Join(parts, ", ")
}

// park hands the baton to next and sleeps until this goroutine is resumed
func (in *Interp) park(self, next *gor) {
	in.saveRegs(self)
	in.sc.cur = next
	in.loadRegs(next)
	next.resume <- struct{}{}
	if self.id == 0 {
		<-self.resume
	} else {
		select {
		case <-self.resume:
		case <-self.kill:
			panic(abortPath{})
		}
	}
	in.sc.cur = self
	in.loadRegs(self)
	if in.sc.crossPanic != nil && self.id == 0 {
		p := in.sc.crossPanic
		in.sc.crossPanic = nil
		panic(p)
	}
}

// yield is a scheduling point.  ready == nil: the caller can continue; otherwise
// it can continue once ready() holds.  Without -sched a blocked caller is a deadlock.
func (in *Interp) yield(ready func() bool, what string) {
	if !in.sc.on {
		if ready != nil && !ready() {
			panic(pathEnd{kind: "deadlock", msg: what + " (single goroutine)"})
		}
		return
	}
	self := in.sc.cur
	if len(in.sc.gos) == 1 {
		if ready != nil && !ready() {
			panic(pathEnd{kind: "deadlock", msg: what + " (no other goroutine)"})
		}
		return
	}
	self.ready, self.what = ready, what
	selfReady := ready == nil || ready()
	if selfReady && in.sc.preemptions >= in.ex.cfg.Preempt && what != "settle" {
		self.ready, self.what = nil, ""
		return
	}
	run := in.runnable()
	if len(run) == 0 {
		panic(pathEnd{kind: "deadlock", msg: "all goroutines are blocked: " + in.blockedSummary()})
	}
	next := run[in.forkFree(len(run))]
	if next != self {
		if selfReady && what != "settle" {
			in.sc.preemptions++
		}
		in.park(self, next)
	}
	self.ready, self.what = nil, ""
}

// spawn starts a goroutine of the program under analysis
func (in *Interp) spawn(run func()) {
	g := &gor{id: len(in.sc.gos), resume: make(chan struct{}), kill: make(chan struct{}), exited: make(chan struct{})}
	in.sc.gos = append(in.sc.gos, g)
	go func() {
		defer close(g.exited)
		select {
		case <-g.resume:
		case <-g.kill:
			return
		}
		defer func() {
			r := recover()
			if _, aborted := r.(abortPath); aborted {
				return
			}
			g.done = true
			main := in.sc.gos[0]
			if r != nil {
				// whatever ended this goroutine abnormally ends the path: hand it to the entry goroutine
				in.sc.crossPanic = r
				in.sc.cur = main
				in.loadRegs(main)
				main.resume <- struct{}{}
				return
			}
			run := in.runnable()
			if len(run) == 0 {
				if main.done {
					return
				}
				in.sc.crossPanic = pathEnd{kind: "deadlock", msg: "all goroutines are blocked: " + in.blockedSummary()}
				in.sc.cur = main
				in.loadRegs(main)
				main.resume <- struct{}{}
				return
			}
			var next *gor
			func() {
				// the choice itself may end the path (infeasible prefix etc.): forward that too
				defer func() {
					if r2 := recover(); r2 != nil {
						in.sc.crossPanic = r2
						next = main
					}
				}()
				next = run[in.forkFree(len(run))]
			}()
			in.sc.cur = next
			in.loadRegs(next)
			next.resume <- struct{}{}
		}()
		in.sc.cur = g
		in.curFrame, in.depth, in.inStub, in.initMode, in.panicStack = nil, 0, 0, 0, nil
		run()
	}()
}

// ---- locks

func (in *Interp) lockAcquire(m *Value, write bool, what string) {
	in.checkNilPtr(m)
	if !in.sc.on {
		return
	}
	free := func() bool {
		if write {
			return in.sc.locks[m] == 0
		}
		return in.sc.locks[m] >= 0
	}
	in.yield(free, what)
	if write {
		in.sc.locks[m] = -1
	} else {
		in.sc.locks[m]++
	}
}

func (in *Interp) lockTry(m *Value, write bool) bool {
	in.checkNilPtr(m)
	if !in.sc.on {
		return true
	}
	in.yield(nil, "trylock")
	if write {
		if in.sc.locks[m] != 0 {
			return false
		}
		in.sc.locks[m] = -1
		return true
	}
	if in.sc.locks[m] < 0 {
		return false
	}
	in.sc.locks[m]++
	return true
}

func (in *Interp) lockRelease(m *Value, write bool) {
	in.checkNilPtr(m)
	if !in.sc.on {
		return
	}
	if write {
		if in.sc.locks[m] != -1 {
			panic(pathEnd{kind: "fatal", msg: "sync: unlock of unlocked mutex"})
		}
		in.sc.locks[m] = 0
		return
	}
	if in.sc.locks[m] <= 0 {
		panic(pathEnd{kind: "fatal", msg: "sync: RUnlock of unlocked RWMutex"})
	}
	in.sc.locks[m]--
}

// ---- wait groups

func (in *Interp) wgAdd(w *Value, n int) {
	if !in.sc.on {
		return
	}
	in.sc.wgCount[w] += n
	if in.sc.wgCount[w] < 0 {
		panic(targetPanic{v: in.runtimeErr("sync: negative WaitGroup counter")})
	}
}

func (in *Interp) wgWait(w *Value) {
	if !in.sc.on {
		return
	}
	in.yield(func() bool { return in.sc.wgCount[w] == 0 }, "WaitGroup.Wait")
}

// ---- channels

func (in *Interp) schedSend(c *Chan, v Value) {
	if !in.sc.on {
		in.chanSend(c, v, true)
		return
	}
	if c == nil {
		in.yield(func() bool { return false }, "send on nil channel")
		return
	}
	room := func() bool {
		if c.closed {
			return true
		}
		if c.cap == 0 {
			return len(c.buf) == 0
		}
		return len(c.buf) < c.cap
	}
	in.yield(room, "chan send")
	in.chanSend(c, v, true)
	if c.cap == 0 {
		// rendezvous: the sender goes on only after the value has been received
		seq := c.recvSeq
		in.yield(func() bool { return c.recvSeq > seq || c.closed }, "chan send (waiting for the receiver)")
	}
}

func (in *Interp) schedWaitRecv(c *Chan) {
	if !in.sc.on {
		return
	}
	if c == nil {
		in.yield(func() bool { return false }, "receive on nil channel")
		return
	}
	c.recvWaiting++
	in.yield(func() bool { return len(c.buf) > 0 || c.closed }, "chan recv")
	c.recvWaiting--
	if len(c.buf) > 0 {
		c.recvSeq++
	}
}

func (in *Interp) schedWaitSelect(fr *frame, instr *ssa.Select) {
	if !in.sc.on {
		return
	}
	ready := func() bool {
		for _, st := range instr.States {
			c, _ := fr.get(st.Chan).(*Chan)
			if c == nil {
				continue
			}
			if st.Dir == types.RecvOnly {
				if len(c.buf) > 0 || c.closed {
					return true
				}
			} else {
				if c.closed || len(c.buf) < c.cap || (c.cap == 0 && len(c.buf) == 0 && c.recvWaiting > 0) {
					return true
				}
			}
		}
		return false
	}
	if !instr.Blocking {
		in.yield(nil, "select (non-blocking)")
		return
	}
	var waiting []*Chan
	for _, st := range instr.States {
		if c, _ := fr.get(st.Chan).(*Chan); c != nil && st.Dir == types.RecvOnly {
			c.recvWaiting++
			waiting = append(waiting, c)
		}
	}
	in.yield(ready, "select")
	for _, c := range waiting {
		c.recvWaiting--
	}
}

// settle: the caller goes on once no other goroutine can run (all blocked or finished)
func (in *Interp) settle() {
	if !in.sc.on {
		return
	}
	self := in.sc.cur
	in.yield(func() bool {
		for _, g := range in.sc.gos {
			if g == self || g.done || g.what == "settle" {
				continue
			}
			if g.ready == nil || g.ready() {
				return false
			}
		}
		return true
	}, "settle")
}

// blockedOthers: how many goroutines besides the caller have not finished (after a settle: are blocked for good)
func (in *Interp) unfinishedOthers() int {
	n := 0
	for _, g := range in.sc.gos {
		if g != in.sc.cur && !g.done {
			n++
		}
	}
	return n
}
