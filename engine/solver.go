package main

// One long-lived SMT solver process per worker, textual SMT-LIB2 over a pipe.
// Every query is: (push) (assert <relevant slice of the path condition>)
// (assert <extra>) (check-sat) [(get-value ...)] (pop).  Definitions of
// compound terms are emitted once at base level as define-fun.

import (
	"bufio"
	"fmt"
	"io"
	"os"
	"os/exec"
	"sort"
	"strconv"
	"strings"
	"time"
)

type SatResult int

const (
	Unsat SatResult = iota
	Sat
	Unknown
)

func (r SatResult) String() string { return [...]string{"unsat", "sat", "unknown"}[r] }

type Solver struct {
	tt        *TermTable
	cmd       *exec.Cmd
	in        io.WriteCloser
	bw        *bufio.Writer
	out       *bufio.Reader
	declSent  int
	cache     map[string]SatResult
	nQueries  int
	nSat      int
	nUnsat    int
	nUnknown  int
	nCacheHit int
	solveTime time.Duration
	timeoutMs int
	bin       []string
	logf      *os.File
	errors    int
}

func NewSolver(tt *TermTable, bin []string, timeoutMs int) (*Solver, error) {
	s := &Solver{tt: tt, cache: map[string]SatResult{}, timeoutMs: timeoutMs, bin: bin}
	if err := s.start(); err != nil {
		return nil, err
	}
	return s, nil
}

func (s *Solver) start() error {
	s.cmd = exec.Command(s.bin[0], s.bin[1:]...)
	in, err := s.cmd.StdinPipe()
	if err != nil {
		return err
	}
	out, err := s.cmd.StdoutPipe()
	if err != nil {
		return err
	}
	s.cmd.Stderr = os.Stderr
	if err := s.cmd.Start(); err != nil {
		return err
	}
	s.in = in
	s.bw = bufio.NewWriterSize(in, 1<<16)
	s.out = bufio.NewReaderSize(out, 1<<16)
	s.declSent = 0
	for _, t := range s.tt.tab {
		t.def = false
	}
	for _, t := range s.tt.nary {
		t.def = false
	}
	s.send("(set-option :print-success false)")
	if strings.Contains(s.bin[0], "z3") {
		s.send(fmt.Sprintf("(set-option :timeout %d)", s.timeoutMs))
	}
	s.send("(set-option :produce-models true)")
	if strings.Contains(s.bin[0], "cvc5") {
		s.send("(set-logic ALL)")
	}
	return nil
}

func (s *Solver) Close() {
	if s.cmd != nil {
		s.in.Close()
		s.cmd.Process.Kill()
		s.cmd.Wait()
		s.cmd = nil
	}
	if s.logf != nil {
		s.logf.Close()
	}
}

func (s *Solver) send(line string) {
	if s.logf != nil {
		fmt.Fprintln(s.logf, line)
	}
	s.bw.WriteString(line)
	s.bw.WriteByte('\n')
}

func (s *Solver) readLine() (string, error) {
	s.bw.Flush()
	l, err := s.out.ReadString('\n')
	return strings.TrimSpace(l), err
}

// readSexp reads a complete (possibly multi-line) s-expression.
func (s *Solver) readSexp() (string, error) {
	s.bw.Flush()
	var sb strings.Builder
	depth := 0
	started := false
	for {
		l, err := s.out.ReadString('\n')
		if err != nil {
			return sb.String(), err
		}
		sb.WriteString(l)
		for _, c := range l {
			if c == '(' {
				depth++
				started = true
			} else if c == ')' {
				depth--
			}
		}
		if started && depth <= 0 {
			return sb.String(), nil
		}
		if !started && strings.TrimSpace(l) != "" {
			return sb.String(), nil
		}
	}
}

func (s *Solver) flushDecls() {
	for s.declSent < len(s.tt.decls) {
		s.send(s.tt.decls[s.declSent])
		s.declSent++
	}
}

// slice returns the conjuncts of pc that are (transitively) connected to the
// symbols of extra.
func slicePC(pc []*Term, extra []*Term) []*Term {
	if len(pc) == 0 {
		return nil
	}
	want := map[int]bool{}
	for _, e := range extra {
		for _, v := range e.vars {
			want[v] = true
		}
	}
	used := make([]bool, len(pc))
	var out []*Term
	changed := true
	for changed {
		changed = false
		for i, c := range pc {
			if used[i] {
				continue
			}
			hit := false
			for _, v := range c.vars {
				if want[v] {
					hit = true
					break
				}
			}
			if hit {
				used[i] = true
				changed = true
				for _, v := range c.vars {
					want[v] = true
				}
			}
		}
	}
	for i, c := range pc {
		if used[i] {
			out = append(out, c)
		}
	}
	return out
}

// Check decides satisfiability of pc ∧ extra.  If wantModel is non-nil and the
// result is Sat, the values of those terms are returned.
func (s *Solver) Check(pc []*Term, extra []*Term, wantModel []*Term) (SatResult, map[int]uint64) {
	for _, e := range extra {
		if e.IsFalse() {
			return Unsat, nil
		}
	}
	var rel []*Term
	if wantModel == nil {
		rel = slicePC(pc, extra)
	} else {
		rel = pc
	}
	// cache key
	ids := make([]int, 0, len(rel)+len(extra))
	for _, c := range rel {
		ids = append(ids, c.id)
	}
	for _, c := range extra {
		if !c.IsTrue() {
			ids = append(ids, c.id)
		}
	}
	sort.Ints(ids)
	var kb strings.Builder
	prev := -1
	for _, id := range ids {
		if id != prev {
			kb.WriteString(strconv.Itoa(id))
			kb.WriteByte(',')
		}
		prev = id
	}
	key := kb.String()
	if wantModel == nil {
		if r, ok := s.cache[key]; ok {
			s.nCacheHit++
			return r, nil
		}
	}
	t0 := time.Now()
	var defs []string
	refs := make([]string, 0, len(rel)+len(extra))
	seen := map[int]bool{}
	for _, c := range append(append([]*Term{}, rel...), extra...) {
		if c.IsTrue() || seen[c.id] {
			continue
		}
		seen[c.id] = true
		refs = append(refs, s.tt.ref(c, &defs))
	}
	var mrefs []string
	for _, m := range wantModel {
		mrefs = append(mrefs, s.tt.ref(m, &defs))
	}
	s.flushDecls()
	for _, d := range defs {
		s.send(d)
	}
	s.send("(push 1)")
	for _, r := range refs {
		s.send("(assert " + r + ")")
	}
	s.send("(check-sat)")
	res := Unknown
	line, err := s.readLine()
	for err == nil && line == "" {
		line, err = s.readLine()
	}
	if err != nil {
		fmt.Fprintf(os.Stderr, "solver died: %v\n", err)
		s.errors++
		s.restart()
		s.nQueries++
		s.nUnknown++
		return Unknown, nil
	}
	switch {
	case line == "sat":
		res = Sat
	case line == "unsat":
		res = Unsat
	case strings.HasPrefix(line, "(error"):
		fmt.Fprintf(os.Stderr, "solver error: %s\n", line)
		s.errors++
		// drain possible second line (sat/unsat/unknown following an error)
		l2, _ := s.readLine()
		_ = l2
		res = Unknown
	default:
		res = Unknown
	}
	var model map[int]uint64
	if res == Sat && len(wantModel) > 0 {
		model = map[int]uint64{}
		// ask in chunks
		const chunk = 64
		for i := 0; i < len(wantModel); i += chunk {
			j := i + chunk
			if j > len(wantModel) {
				j = len(wantModel)
			}
			s.send("(get-value (" + strings.Join(mrefs[i:j], " ") + "))")
			sx, err := s.readSexp()
			if err != nil || strings.HasPrefix(strings.TrimSpace(sx), "(error") {
				fmt.Fprintf(os.Stderr, "get-value failed: %v %s\n", err, sx)
				s.errors++
				break
			}
			vals := parseValues(sx)
			if len(vals) != j-i {
				fmt.Fprintf(os.Stderr, "get-value: expected %d values, got %d: %s\n", j-i, len(vals), sx)
				s.errors++
				break
			}
			for k, v := range vals {
				model[wantModel[i+k].id] = v
			}
		}
	}
	s.send("(pop 1)")
	s.solveTime += time.Since(t0)
	s.nQueries++
	switch res {
	case Sat:
		s.nSat++
	case Unsat:
		s.nUnsat++
	default:
		s.nUnknown++
	}
	if res != Unknown {
		s.cache[key] = res
	}
	return res, model
}

func (s *Solver) restart() {
	if s.cmd != nil {
		s.in.Close()
		s.cmd.Process.Kill()
		s.cmd.Wait()
	}
	if err := s.start(); err != nil {
		panic(err)
	}
}

// parseValues extracts the values from a get-value answer:
// ((t1 #x00ff) (t2 true) (t3 (_ bv10 32)) ...)
func parseValues(sx string) []uint64 {
	var out []uint64
	toks := tokenize(sx)
	// structure: ( ( name value ) ( name value ) ... )
	depth := 0
	i := 0
	for i < len(toks) {
		t := toks[i]
		switch t {
		case "(":
			depth++
			if depth == 2 {
				// skip the name expression (may be compound)
				i++
				i = skipExpr(toks, i)
				// parse value expr
				v, ni := parseValueExpr(toks, i)
				out = append(out, v)
				i = ni
				continue
			}
		case ")":
			depth--
		}
		i++
	}
	return out
}

func tokenize(s string) []string {
	var toks []string
	i := 0
	for i < len(s) {
		c := s[i]
		switch {
		case c == '(' || c == ')':
			toks = append(toks, string(c))
			i++
		case c == ' ' || c == '\n' || c == '\t' || c == '\r':
			i++
		case c == '|':
			j := i + 1
			for j < len(s) && s[j] != '|' {
				j++
			}
			toks = append(toks, s[i:j+1])
			i = j + 1
		default:
			j := i
			for j < len(s) && !strings.ContainsRune("() \n\t\r", rune(s[j])) {
				j++
			}
			toks = append(toks, s[i:j])
			i = j
		}
	}
	return toks
}

func skipExpr(toks []string, i int) int {
	if toks[i] != "(" {
		return i + 1
	}
	d := 0
	for ; i < len(toks); i++ {
		if toks[i] == "(" {
			d++
		} else if toks[i] == ")" {
			d--
			if d == 0 {
				return i + 1
			}
		}
	}
	return i
}

func parseValueExpr(toks []string, i int) (uint64, int) {
	t := toks[i]
	switch {
	case t == "true":
		return 1, i + 1
	case t == "false":
		return 0, i + 1
	case strings.HasPrefix(t, "#x"):
		s := t[2:]
		if len(s) > 16 {
			s = s[len(s)-16:]
		}
		v, _ := strconv.ParseUint(s, 16, 64)
		return v, i + 1
	case strings.HasPrefix(t, "#b"):
		s := t[2:]
		if len(s) > 64 {
			s = s[len(s)-64:]
		}
		v, _ := strconv.ParseUint(s, 2, 64)
		return v, i + 1
	case t == "(":
		// (_ bvN w)
		if i+2 < len(toks) && toks[i+1] == "_" && strings.HasPrefix(toks[i+2], "bv") {
			v, _ := strconv.ParseUint(toks[i+2][2:], 10, 64)
			return v, skipExpr(toks, i)
		}
		return 0, skipExpr(toks, i)
	}
	return 0, i + 1
}
