package main

// hookgen: produces an overlay copy of a /repo source file in which the named
// top-level functions forward to a hook installed through verifrt.Replace
// (native replays only; the symbolic engine replaces calls itself).
//
//   gosymex hookgen <src.go> <out.go> <qualified-prefix> <Func> [<Func>...]
//
// F(args) becomes:  func F(args) { if h := verifrt.Hook("<prefix>.F"); h != nil { return h.(func(...)...)(args) }; return verifOrig_F(args) }

import (
	"bytes"
	"fmt"
	"go/ast"
	"go/format"
	"go/parser"
	"go/printer"
	"go/token"
	"os"
	"strings"
)

// hookgenMethod emits the forwarding method: the hook takes the receiver as its first argument.
func hookgenMethod(extra *bytes.Buffer, fd *ast.FuncDecl, typeStr func(ast.Expr) string, recvT, key string) {
	name := fd.Name.Name
	var params, argNames, ptypes []string
	k := 0
	for _, fl := range fd.Type.Params.List {
		ts := typeStr(fl.Type)
		n := len(fl.Names)
		if n == 0 {
			n = 1
		}
		for i := 0; i < n; i++ {
			an := fmt.Sprintf("a%d", k)
			k++
			params = append(params, an+" "+ts)
			if strings.HasPrefix(ts, "...") {
				argNames = append(argNames, an+"...")
			} else {
				argNames = append(argNames, an)
			}
			ptypes = append(ptypes, ts)
		}
	}
	var rtypes []string
	if fd.Type.Results != nil {
		for _, fl := range fd.Type.Results.List {
			ts := typeStr(fl.Type)
			n := len(fl.Names)
			if n == 0 {
				n = 1
			}
			for i := 0; i < n; i++ {
				rtypes = append(rtypes, ts)
			}
		}
	}
	res := ""
	if len(rtypes) == 1 {
		res = " " + rtypes[0]
	} else if len(rtypes) > 1 {
		res = " (" + strings.Join(rtypes, ", ") + ")"
	}
	ret := ""
	if len(rtypes) > 0 {
		ret = "return "
	}
	hookArgs := append([]string{"vrecv"}, argNames...)
	hookTypes := append([]string{recvT}, ptypes...)
	fmt.Fprintf(extra, "\nfunc (vrecv %s) %s(%s)%s {\n\tif h := verifrtHook.Hook(%q); h != nil {\n\t\t%sh.(func(%s)%s)(%s)\n\t\treturn\n\t}\n\t%svrecv.verifOrig_%s(%s)\n}\n",
		recvT, name, strings.Join(params, ", "), res, key, ret, strings.Join(hookTypes, ", "), res, strings.Join(hookArgs, ", "),
		ret, name, strings.Join(argNames, ", "))
}

func hookgenMain(args []string) {
	if len(args) < 4 {
		fmt.Fprintln(os.Stderr, "usage: gosymex hookgen <src.go> <out.go> <qualified-prefix> <Func>...")
		os.Exit(3)
	}
	src, out, prefix, names := args[0], args[1], args[2], args[3:]
	fset := token.NewFileSet()
	f, err := parser.ParseFile(fset, src, nil, parser.ParseComments)
	if err != nil {
		fatal(err.Error())
	}
	want := map[string]bool{}
	for _, n := range names {
		want[n] = true
	}
	var extra bytes.Buffer
	typeStr := func(e ast.Expr) string {
		var b bytes.Buffer
		printer.Fprint(&b, fset, e)
		return b.String()
	}
	found := 0
	for _, d := range f.Decls {
		fd, ok := d.(*ast.FuncDecl)
		if !ok || fd.Body == nil {
			continue
		}
		// methods are named "Type.Method"; the hook key is the go/ssa name of the method
		recvType, recvPtr := "", false
		if fd.Recv != nil && len(fd.Recv.List) == 1 {
			rt := fd.Recv.List[0].Type
			if st, ok := rt.(*ast.StarExpr); ok {
				rt, recvPtr = st.X, true
			}
			if id, ok := rt.(*ast.Ident); ok {
				recvType = id.Name
			} else {
				continue
			}
			if !want[recvType+"."+fd.Name.Name] {
				continue
			}
		} else if fd.Recv != nil || !want[fd.Name.Name] {
			continue
		}
		found++
		name := fd.Name.Name
		if recvType != "" {
			rts := recvType
			key := "(" + prefix + "." + recvType + ")." + name
			if recvPtr {
				rts = "*" + recvType
				key = "(*" + prefix + "." + recvType + ")." + name
			}
			hookgenMethod(&extra, fd, typeStr, rts, key)
			fd.Name.Name = "verifOrig_" + name
			continue
		}
		var params, argNames, ptypes []string
		k := 0
		variadic := false
		for _, fl := range fd.Type.Params.List {
			ts := typeStr(fl.Type)
			n := len(fl.Names)
			if n == 0 {
				n = 1
			}
			for i := 0; i < n; i++ {
				an := fmt.Sprintf("a%d", k)
				k++
				params = append(params, an+" "+ts)
				if strings.HasPrefix(ts, "...") {
					argNames = append(argNames, an+"...")
					variadic = true
				} else {
					argNames = append(argNames, an)
				}
				ptypes = append(ptypes, ts)
			}
		}
		_ = variadic
		var rtypes []string
		if fd.Type.Results != nil {
			for _, fl := range fd.Type.Results.List {
				ts := typeStr(fl.Type)
				n := len(fl.Names)
				if n == 0 {
					n = 1
				}
				for i := 0; i < n; i++ {
					rtypes = append(rtypes, ts)
				}
			}
		}
		res := ""
		if len(rtypes) == 1 {
			res = " " + rtypes[0]
		} else if len(rtypes) > 1 {
			res = " (" + strings.Join(rtypes, ", ") + ")"
		}
		ret := ""
		if len(rtypes) > 0 {
			ret = "return "
		}
		fmt.Fprintf(&extra, "\nfunc %s(%s)%s {\n\tif h := verifrtHook.Hook(%q); h != nil {\n\t\t%sh.(func(%s)%s)(%s)\n\t\treturn\n\t}\n\t%sverifOrig_%s(%s)\n}\n",
			name, strings.Join(params, ", "), res, prefix+"."+name, ret, strings.Join(ptypes, ", "), res, strings.Join(argNames, ", "),
			ret, name, strings.Join(argNames, ", "))
		fd.Name.Name = "verifOrig_" + name
	}
	if found != len(names) {
		fatal(fmt.Sprintf("hookgen: found %d of %d functions in %s", found, len(names), src))
	}
	var buf bytes.Buffer
	if err := printer.Fprint(&buf, fset, f); err != nil {
		fatal(err.Error())
	}
	s := buf.String()
	// add the import right after the package clause
	idx := strings.Index(s, "\npackage ")
	if strings.HasPrefix(s, "package ") {
		idx = -1
	}
	pkgLineEnd := strings.Index(s[idx+1:], "\n") + idx + 1
	s = s[:pkgLineEnd+1] + "\nimport verifrtHook \"github.com/anyproto/any-sync/internal/verifrt\"\n" + s[pkgLineEnd+1:]
	s += extra.String()
	// a "return" after a value return is unreachable but harmless; for functions with results drop it
	s = strings.ReplaceAll(s, ")\n\t\treturn\n\t}\n\treturn verifOrig_", ")\n\t}\n\treturn verifOrig_")
	s = strings.ReplaceAll(s, ")\n\t\treturn\n\t}\n\treturn vrecv.verifOrig_", ")\n\t}\n\treturn vrecv.verifOrig_")
	formatted, err := format.Source([]byte(s))
	if err != nil {
		os.WriteFile(out, []byte(s), 0o644)
		fatal("hookgen: generated file does not format: " + err.Error())
	}
	if err := os.WriteFile(out, formatted, 0o644); err != nil {
		fatal(err.Error())
	}
}
