package main

import "golang.org/x/tools/go/ssa"

// sortSliceIntrinsic models sort.Slice / sort.SliceStable (which swap through
// reflection) as a stable insertion sort that calls the caller's less function.
// For elements that compare equal sort.Slice leaves the order unspecified; the
// stable order is one of the permitted outcomes.
func sortSliceIntrinsic(in *Interp, c *frame, fn *ssa.Function, a []Value) Value {
	x, ok := a[0].(Iface)
	if !ok || x.t == nil {
		panic(unsupported("sort.Slice of non-slice"))
	}
	s, ok := x.v.(Slice)
	if !ok {
		panic(unsupported("sort.Slice of non-slice"))
	}
	less := a[1]
	for i := 1; i < s.len; i++ {
		for j := i; j > 0; j-- {
			r := in.call(c, nil, less, []Value{in.tt.Const(64, uint64(j)), in.tt.Const(64, uint64(j-1))})
			if !in.forkBool(r.(*Term)) {
				break
			}
			s.arr[j], s.arr[j-1] = s.arr[j-1], s.arr[j]
		}
	}
	return nil
}
