package main

import (
	"go/types"

	"golang.org/x/tools/go/ssa"
)

// NativeFunc is a function value implemented by the engine (e.g. the cancel
// function returned by the context.With* models).
type NativeFunc struct {
	f func(in *Interp, args []Value) Value
}

var registerLate []func()

var noopCancel = &NativeFunc{f: func(in *Interp, args []Value) Value { return nil }}

// context.WithCancel / WithTimeout / WithDeadline: timers never fire and the
// cancel function does nothing; the derived context is the parent itself
// (values and an already-cancelled parent are preserved).  Stated in DESIGN
// §2.5: "timers never fire unless the harness says so".
func ctxDerive(in *Interp, c *frame, fn *ssa.Function, a []Value) Value {
	return Tuple{a[0], noopCancel}
}

func init() {
	registerLate = append(registerLate, func() {
		intrinsics["context.WithCancel"] = ctxDerive
		intrinsics["context.WithTimeout"] = ctxDerive
		intrinsics["context.WithDeadline"] = ctxDerive
		intrinsics["context.WithCancelCause"] = ctxDerive
	})
}

// context.WithValue: the real one consults reflectlite for key comparability
// (unsafe type words); the model builds the same *context.valueCtx directly.
func ctxWithValue(in *Interp, c *frame, fn *ssa.Function, a []Value) Value {
	t := in.namedType("context", "valueCtx")
	if t == nil {
		panic(unsupported("context.valueCtx not loaded"))
	}
	if p, ok := a[0].(Iface); !ok || p.t == nil {
		panic(targetPanic{v: in.runtimeErr("cannot create context from nil parent")})
	}
	p := new(Value)
	*p = Struct{a[0], a[1], a[2]}
	return Iface{t: types.NewPointer(t), v: p}
}

func init() {
	registerLate = append(registerLate, func() {
		intrinsics["context.WithValue"] = ctxWithValue
	})
}
