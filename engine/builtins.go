package main

import (
	"fmt"
	"go/types"

	"golang.org/x/tools/go/ssa"
)

func (in *Interp) callBuiltin(caller *frame, site ssa.Instruction, fn *ssa.Builtin, args []Value) Value {
	tt := in.tt
	for _, a := range args {
		if p, ok := a.(Poison); ok {
			if in.initMode > 0 {
				return p
			}
			panic(unsupported("builtin " + fn.Name() + " on poisoned value: " + p.why))
		}
	}
	switch fn.Name() {
	case "append":
		s0, _ := args[0].(Slice)
		if len(args) == 1 {
			return s0
		}
		var add []Value
		switch a := args[1].(type) {
		case Str:
			for _, b := range in.strBytes(a) {
				add = append(add, b)
			}
		case Slice:
			for i := 0; i < a.len; i++ {
				add = append(add, copyVal(a.arr[i]))
			}
		default:
			panic(fmt.Sprintf("append: %T", args[1]))
		}
		if len(add) == 0 {
			return s0
		}
		n := s0.len + len(add)
		if n <= len(s0.arr) {
			// in place (aliasing preserved)
			for i, v := range add {
				s0.arr[s0.len+i] = v
			}
			return Slice{arr: s0.arr, len: n}
		}
		// grow: mimic amortised doubling so that later appends may alias like in Go
		newCap := len(s0.arr) * 2
		if newCap < n {
			newCap = n
		}
		if int64(newCap) > in.ex.cfg.MaxAlloc {
			panic(pathEnd{kind: "alloc", msg: fmt.Sprintf("append growing to %d elements", newCap)})
		}
		arr := make([]Value, newCap)
		for i := 0; i < s0.len; i++ {
			arr[i] = s0.arr[i]
		}
		for i, v := range add {
			arr[s0.len+i] = v
		}
		// zero the spare capacity
		if newCap > n {
			var z Value
			sig := fn.Type().(*types.Signature)
			if sl, ok := sig.Params().At(0).Type().Underlying().(*types.Slice); ok {
				z = in.zero(sl.Elem())
			}
			for i := n; i < newCap; i++ {
				arr[i] = copyVal(z)
			}
		}
		return Slice{arr: arr, len: n}

	case "copy":
		dst := args[0].(Slice)
		var src []Value
		switch a := args[1].(type) {
		case Str:
			for _, b := range in.strBytes(a) {
				src = append(src, b)
			}
		case Slice:
			src = a.arr[:a.len]
		}
		n := dst.len
		if len(src) < n {
			n = len(src)
		}
		// handle overlap like memmove
		tmp := make([]Value, n)
		for i := 0; i < n; i++ {
			tmp[i] = copyVal(src[i])
		}
		for i := 0; i < n; i++ {
			dst.arr[i] = tmp[i]
		}
		return tt.Const(64, uint64(n))

	case "close":
		c := args[0].(*Chan)
		if c == nil {
			panic(targetPanic{v: in.runtimeErr("close of nil channel")})
		}
		if c.closed {
			panic(targetPanic{v: in.runtimeErr("close of closed channel")})
		}
		c.closed = true
		return nil

	case "delete":
		in.mapDelete(args[0].(*Map), args[1])
		return nil

	case "clear":
		switch a := args[0].(type) {
		case *Map:
			if a != nil {
				a.entries = nil
			}
		case Slice:
			sig := fn.Type().(*types.Signature)
			var z Value
			if sl, ok := sig.Params().At(0).Type().Underlying().(*types.Slice); ok {
				z = in.zero(sl.Elem())
			}
			for i := 0; i < a.len; i++ {
				a.arr[i] = copyVal(z)
			}
		}
		return nil

	case "print", "println":
		return nil

	case "len":
		switch x := args[0].(type) {
		case Str:
			return tt.Const(64, uint64(x.Len()))
		case Array:
			return tt.Const(64, uint64(len(x)))
		case *Value:
			if x == nil {
				// len of nil *array is the array length (type-derived); rare
				sig := fn.Type().(*types.Signature)
				if p, ok := sig.Params().At(0).Type().Underlying().(*types.Pointer); ok {
					return tt.Const(64, uint64(p.Elem().Underlying().(*types.Array).Len()))
				}
			}
			return tt.Const(64, uint64(len((*x).(Array))))
		case Slice:
			return tt.Const(64, uint64(x.len))
		case *Map:
			if x == nil {
				return tt.Const(64, 0)
			}
			return tt.Const(64, uint64(len(x.entries)))
		case *Chan:
			if x == nil {
				return tt.Const(64, 0)
			}
			return tt.Const(64, uint64(len(x.buf)))
		}
		panic(fmt.Sprintf("len: illegal operand: %T", args[0]))

	case "cap":
		switch x := args[0].(type) {
		case Array:
			return tt.Const(64, uint64(len(x)))
		case *Value:
			return tt.Const(64, uint64(len((*x).(Array))))
		case Slice:
			return tt.Const(64, uint64(len(x.arr)))
		case *Chan:
			if x == nil {
				return tt.Const(64, 0)
			}
			return tt.Const(64, uint64(x.cap))
		}
		panic(fmt.Sprintf("cap: illegal operand: %T", args[0]))

	case "min", "max":
		sig := fn.Type().(*types.Signature)
		t := sig.Params().At(0).Type()
		r := args[0]
		for _, a := range args[1:] {
			var less Value
			if fn.Name() == "min" {
				less = in.binop(tokenLSS, t, a, r)
			} else {
				less = in.binop(tokenLSS, t, r, a)
			}
			lt := less.(*Term)
			switch rv := r.(type) {
			case *Term:
				r = tt.Ite(lt, a.(*Term), rv)
			default:
				if in.forkBool(lt) {
					r = a
				}
			}
		}
		return r

	case "panic":
		panic(targetPanic{v: args[0]})

	case "recover":
		return in.doRecover(caller)

	case "ssa:wrapnilchk":
		recv := args[0]
		if p, ok := recv.(*Value); ok && p == nil {
			recvType := args[1].(Str).s
			methodName := args[2].(Str).s
			panic(targetPanic{v: in.runtimeErr(fmt.Sprintf("value method %s.%s called using nil *%s pointer", recvType, methodName, recvType))})
		}
		return recv

	case "ssa:deferstack":
		return &caller.defers

	case "String": // unsafe.String(ptr *byte, len)
		p := args[0].(*Value)
		n := in.concInt(args[1])
		if n == 0 {
			return Str{}
		}
		o, ok := in.ptrOrig[p]
		if !ok {
			panic(unsupported("unsafe.String of untracked pointer"))
		}
		switch o := o.(type) {
		case Slice:
			b := make([]*Term, n)
			for i := 0; i < n; i++ {
				b[i] = o.arr[i].(*Term)
			}
			return normStr(b, 0)
		case Str:
			if o.sym != nil {
				return normStr(o.sym[:n], 0)
			}
			return Str{s: o.s[:n]}
		}
	case "StringData": // unsafe.StringData(s) *byte
		s := args[0].(Str)
		if s.Len() == 0 {
			return (*Value)(nil)
		}
		bs := in.strBytes(s)
		arr := make([]Value, len(bs))
		for i, b := range bs {
			arr[i] = b
		}
		in.ptrOrig[&arr[0]] = Slice{arr: arr, len: len(arr)}
		return &arr[0]
	case "SliceData":
		s := args[0].(Slice)
		if len(s.arr) == 0 {
			return (*Value)(nil)
		}
		in.ptrOrig[&s.arr[0]] = s
		return &s.arr[0]
	case "Slice": // unsafe.Slice(ptr, n)
		p := args[0].(*Value)
		n := in.concInt(args[1])
		if p == nil {
			if n == 0 {
				return Slice{null: true}
			}
			in.throw("unsafe.Slice: ptr is nil and len is not zero")
		}
		o, ok := in.ptrOrig[p]
		if !ok {
			panic(unsupported("unsafe.Slice of untracked pointer"))
		}
		if s, ok := o.(Slice); ok {
			if n > len(s.arr) {
				panic(unsupported("unsafe.Slice beyond tracked origin"))
			}
			return Slice{arr: s.arr[:n:n], len: n}
		}
	}
	panic(unsupported("builtin " + fn.Name()))
}

func (in *Interp) doRecover(caller *frame) Value {
	// recover() must be called directly by a deferred function.
	if caller != nil && !caller.panicking && caller.caller != nil && caller.caller.panicking {
		caller.caller.panicking = false
		p := caller.caller.panicv
		caller.caller.panicv = nil
		if tp, ok := p.(targetPanic); ok {
			if i, isI := tp.v.(Iface); isI {
				return i
			}
			return Iface{t: types.Typ[types.String], v: tp.v}
		}
		panic(p)
	}
	return Iface{}
}
