package main

import "math"

// FloatInt is float64(x) for a symbolic 64-bit signed integer x.  Exact only
// while |x| < 2^53 (harnesses that use it assume that range); supports
// conversion back to integers, comparison and equality.
type FloatInt struct {
	t *Term
}

// floatIntPair returns integer terms for two float operands when at least one
// is a FloatInt and the other is a FloatInt or an integral constant.
func (in *Interp) floatIntPair(x, y Value) (*Term, *Term, bool) {
	fx, xok := x.(FloatInt)
	fy, yok := y.(FloatInt)
	if !xok && !yok {
		return nil, nil, false
	}
	conv := func(v Value) (*Term, bool) {
		switch v := v.(type) {
		case FloatInt:
			return v.t, true
		case float64:
			if v == math.Trunc(v) && math.Abs(v) < 1<<62 {
				return in.tt.Const(64, uint64(int64(v))), true
			}
		}
		return nil, false
	}
	_ = fx
	_ = fy
	a, ok1 := conv(x)
	b, ok2 := conv(y)
	if !ok1 || !ok2 {
		panic(unsupported("comparison of a symbolic float with a non-integral float"))
	}
	return a, b, true
}
