#!/usr/bin/env python3
"""Regenerates /verif/MANIFEST.json from checks.json and the per-property
texts in manifest_text.json."""
import json
import os

V = os.path.dirname(os.path.abspath(__file__))
checks = json.load(open(os.path.join(V, "checks.json")))
text = json.load(open(os.path.join(V, "manifest_text.json")))
props = [json.loads(l)["id"] for l in open(os.path.join(V, "properties.jsonl"))]
baseline = json.load(open("/root/.vp/BASELINE.json"))["cmd"]

m = {
    "version": 1,
    "setup_cmd": "./build.sh",
    "hooks": {
        "guard": "verif",
        "enable": "no source edits: harnesses, the verifrt intrinsic package and test drivers are overlay files carrying //go:build verif (go/packages Overlay for the encoder, go test -overlay for native replays); stubbed dependency modules are swapped by an alternative go.mod (-modfile) outside /repo",
        "baseline_off_cmd": baseline,
        "source_commits": [],
        "add_only": True,
    },
    "engines": [{
        "name": "gosymex",
        "path": "engine/",
        "serves_properties": sorted(checks.keys()),
        "kind_free_text": "path-wise symbolic executor for Go SSA (golang.org/x/tools/go/ssa) written for this task: bit-vector terms, z3 over a pipe, decision-prefix re-execution, native replay of every counterexample",
    }],
    "checks": [],
    "not_applicable": [],
    "notes": "All checks share one technique: the real functions of /repo's working tree are executed symbolically from go/ssa, branch feasibility and every assertion are decided by z3 within the bounds recorded in the evidence file; see DESIGN.md.",
}
for p in props:
    if p in checks:
        t = text[p]
        m["checks"].append({
            "property_id": p,
            "quick_cmd": "./check %s --tier quick" % p,
            "thorough_cmd": "./check %s --tier thorough" % p,
            "evidence_file": "evidence/%s.json" % p,
            "replay_cmd_template": "./check %s --replay {path}" % p,
            "engine": "gosymex",
            "level_claimed": {"category": "model_checking", "text": t["level"], "design_ref": t.get("design_ref", "DESIGN.md §4 " + p)},
            "level_note": t["note"],
            "technique": t.get("technique", "bounded symbolic execution of the real Go SSA with an SMT solver (z3) deciding every branch and assertion; counterexamples replayed natively"),
        })
    else:
        m["not_applicable"].append({"property_id": p, "reason": text.get(p, {}).get("na", "check not built yet (see DESIGN.md)")})
json.dump(m, open(os.path.join(V, "MANIFEST.json"), "w"), indent=1)
print("checks:", [c["property_id"] for c in m["checks"]])
print("n/a:", [c["property_id"] for c in m["not_applicable"]])
