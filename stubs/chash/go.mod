module github.com/anyproto/go-chash

go 1.21
