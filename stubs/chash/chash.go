// Verification stub (replace directive) for github.com/anyproto/go-chash.
package chash

import (
	"errors"
	"fmt"
)

var (
	ErrMemberExists       = errors.New("member exists")
	ErrMemberNotExists    = errors.New("member not exists")
	ErrPartitionNotExists = errors.New("partition not exists")
	ErrInvalidCapacity    = errors.New("member capacity must be > 0")
)

type CHash interface {
	AddMembers(members ...Member) error
	RemoveMembers(memberIds ...string) error
	Reconfigure(members []Member) error
	GetMembers(key string) []Member
	GetPartition(key string) int
	GetPartitionMembers(partId int) ([]Member, error)
	Distribute()
	PartitionCount() int
}

type Member interface {
	Id() string
	Capacity() float64
}

type Hasher interface {
	Sum64([]byte) uint64
}

type Config struct {
	Hasher            Hasher
	PartitionCount    uint64
	ReplicationFactor int
	MultiplyFactor    int
}

func (c Config) Validate() (err error) {
	if c.ReplicationFactor < 1 {
		return fmt.Errorf("replcation factor must be great or equal 1")
	}
	if c.PartitionCount < 10 {
		return fmt.Errorf("patiotin count must be great ir qual 10")
	}
	return
}

// VerifPick chooses the start offset of the responsible window: any
// deterministic function of the member ids and the key (installed by the harness).
var VerifPick func(memberIds []string, key string) uint64

// VerifLog records the member lists handed to AddMembers (inspected by the harness).
var VerifLog [][]string

type Fake struct {
	Config  Config
	Members []Member
}

func New(c Config) (CHash, error) {
	if c.ReplicationFactor == 0 {
		c.ReplicationFactor = 1
	}
	if err := c.Validate(); err != nil {
		return nil, err
	}
	return &Fake{Config: c}, nil
}

func (f *Fake) AddMembers(members ...Member) error {
	var ids []string
	for i, m := range members {
		if m.Capacity() <= 0 {
			return ErrInvalidCapacity
		}
		for _, e := range f.Members {
			if e.Id() == m.Id() {
				return ErrMemberExists
			}
		}
		for _, e := range members[:i] {
			if e.Id() == m.Id() {
				return ErrMemberExists
			}
		}
		ids = append(ids, m.Id())
	}
	VerifLog = append(VerifLog, ids)
	f.Members = append(f.Members, members...)
	return nil
}

func (f *Fake) RemoveMembers(memberIds ...string) error {
	for _, id := range memberIds {
		found := false
		for i, e := range f.Members {
			if e.Id() == id {
				f.Members = append(f.Members[:i:i], f.Members[i+1:]...)
				found = true
				break
			}
		}
		if !found {
			return ErrMemberNotExists
		}
	}
	return nil
}

func (f *Fake) Reconfigure(members []Member) error {
	f.Members = append([]Member(nil), members...)
	return nil
}

func (f *Fake) GetMembers(key string) []Member {
	n := len(f.Members)
	if n == 0 {
		return nil
	}
	k := f.Config.ReplicationFactor
	if k > n {
		k = n
	}
	ids := make([]string, n)
	for i, m := range f.Members {
		ids[i] = m.Id()
	}
	// VerifPick's contract: result < len(ids) (no modulo: 64-bit remainder by a
	// non-power-of-two constant is expensive for the solver)
	start := int(VerifPick(ids, key))
	if start < 0 || start >= n {
		start = 0
	}
	res := make([]Member, 0, k)
	for i := 0; i < k; i++ {
		j := start + i
		if j >= n {
			j -= n
		}
		res = append(res, f.Members[j])
	}
	return res
}

func (f *Fake) GetPartition(key string) int {
	return int(VerifPick(nil, key))
}

func (f *Fake) GetPartitionMembers(partId int) ([]Member, error) {
	if partId < 0 || uint64(partId) >= f.Config.PartitionCount {
		return nil, ErrPartitionNotExists
	}
	return nil, nil
}

func (f *Fake) Distribute()         {}
func (f *Fake) PartitionCount() int { return int(f.Config.PartitionCount) }
