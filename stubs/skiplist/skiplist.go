// Verification stub (overlay) for github.com/huandu/skiplist: an ordered set
// kept as a sorted singly-linked list, ordered by the caller's Comparable.
package skiplist

type Comparable interface {
	Compare(lhs, rhs interface{}) int
	CalcScore(key interface{}) float64
}

type Element struct {
	Value interface{}
	key   interface{}
	next  *Element
	list  *SkipList
}

func (e *Element) Key() interface{} { return e.key }
func (e *Element) Next() *Element {
	if e == nil {
		return nil
	}
	return e.next
}

type SkipList struct {
	comparable Comparable
	front      *Element
	length     int
}

func New(c Comparable) *SkipList { return &SkipList{comparable: c} }

func (l *SkipList) Init() *SkipList { l.front = nil; l.length = 0; return l }
func (l *SkipList) Front() *Element { return l.front }
func (l *SkipList) Len() int        { return l.length }

// Find returns the first element that is greater or equal to key.
func (l *SkipList) Find(key interface{}) *Element {
	for e := l.front; e != nil; e = e.next {
		if l.comparable.Compare(key, e.key) <= 0 {
			return e
		}
	}
	return nil
}

func (l *SkipList) Get(key interface{}) *Element {
	for e := l.front; e != nil; e = e.next {
		c := l.comparable.Compare(key, e.key)
		if c == 0 {
			return e
		}
		if c < 0 {
			return nil
		}
	}
	return nil
}

func (l *SkipList) Set(key, value interface{}) *Element {
	var prev *Element
	for e := l.front; e != nil; e = e.next {
		c := l.comparable.Compare(key, e.key)
		if c == 0 {
			e.Value = value
			return e
		}
		if c < 0 {
			break
		}
		prev = e
	}
	n := &Element{Value: value, key: key, list: l}
	if prev == nil {
		n.next = l.front
		l.front = n
	} else {
		n.next = prev.next
		prev.next = n
	}
	l.length++
	return n
}

func (l *SkipList) Remove(key interface{}) *Element {
	var prev *Element
	for e := l.front; e != nil; e = e.next {
		c := l.comparable.Compare(key, e.key)
		if c == 0 {
			if prev == nil {
				l.front = e.next
			} else {
				prev.next = e.next
			}
			l.length--
			e.next = nil
			return e
		}
		if c < 0 {
			return nil
		}
		prev = e
	}
	return nil
}
