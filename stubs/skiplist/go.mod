module github.com/huandu/skiplist

go 1.21
