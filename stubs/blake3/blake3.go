// Verification stub (overlay) for github.com/zeebo/blake3: a Hasher whose
// digest is the written byte stream itself, i.e. a collision-free hash.
package blake3

type Hasher struct {
	buf []byte
}

func New() *Hasher { return &Hasher{} }

func (h *Hasher) Reset() { h.buf = h.buf[:0] }

func (h *Hasher) Write(p []byte) (int, error) {
	h.buf = append(h.buf, p...)
	return len(p), nil
}

func (h *Hasher) WriteString(s string) (int, error) {
	h.buf = append(h.buf, s...)
	return len(s), nil
}

func (h *Hasher) Sum(b []byte) []byte {
	out := make([]byte, 0, len(b)+len(h.buf)+1)
	out = append(out, b...)
	out = append(out, 0xB3) // non-empty even for the empty stream, like a real digest
	out = append(out, h.buf...)
	return out
}

func (h *Hasher) Size() int      { return 32 }
func (h *Hasher) BlockSize() int { return 64 }

func Sum256(data []byte) (sum [32]byte) {
	panic("blake3 stub: Sum256 not modelled")
}
