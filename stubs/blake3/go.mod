module github.com/zeebo/blake3

go 1.21
