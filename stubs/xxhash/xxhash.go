// Verification stub (overlay) for github.com/cespare/xxhash: Sum64 is whatever
// function the harness installs (an uninterpreted function in symbolic runs, a
// table from the solver's model in native replays).
package xxhash

var VerifSum64 func(b []byte) uint64

func Sum64(b []byte) uint64 {
	if VerifSum64 == nil {
		panic("xxhash stub: VerifSum64 not installed")
	}
	return VerifSum64(b)
}

func Sum64String(s string) uint64 { return Sum64([]byte(s)) }
