module github.com/cespare/xxhash

go 1.21
