#!/bin/bash
# runs every registered check at the given tier, one after the other; prints one line per property
TIER=${1:-quick}
cd /verif
for p in $(python3 -c "import json;print(' '.join(sorted(json.load(open('checks.json')).keys())))"); do
  s=$(date +%s)
  out=$(timeout 7200 ./check $p --tier $TIER 2>&1)
  rc=$?
  echo "$p rc=$rc $(( $(date +%s) - s ))s :: $(echo "$out" | grep -v '^  ' | tail -1)"
  echo "$out" | grep "VIOLATION\|MACHINERY\|INCONCLUSIVE\|UNCONFIRMED\|KNOWN-FINDING\|TRUNCATED" | head -8
  if [ "$TIER" = thorough ]; then mkdir -p out/evidence-thorough; cp evidence/$p.json out/evidence-thorough/$p.json; fi
done
