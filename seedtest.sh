#!/bin/bash
# usage: seedtest.sh <seed-id> <property> <worktree> <pkg-of-demo> [check args...]
# 1. saves patch + demo under /verif/seeded/<seed-id>/, 2. confirms the demo fails with / passes without the change
# in the worktree, 3. applies the patch to /repo, runs ./check <property>, undoes it.
ID=$1; PROP=$2; WT=$3; PKG=$4; shift 4
export GOFLAGS=-mod=mod GOPROXY=off
D=/verif/seeded/$ID; mkdir -p $D
cp $WT/seeded.patch $D/patch.diff
DEMO=$(cd $WT && git status --porcelain | grep zz_seeded_demo_test.go | awk '{print $2}' | head -1)
cp $WT/$DEMO $D/zz_seeded_demo_test.go
echo "demo file: $DEMO"
cd $WT
echo "--- demo WITH change (expect FAIL)"; go test -count=1 -run 'Seeded' ./$PKG/ 2>&1 | tail -3
git apply -R seeded.patch
echo "--- demo WITHOUT change (expect ok)"; go test -count=1 -run 'Seeded' ./$PKG/ 2>&1 | tail -2
git apply seeded.patch
echo "--- existing tests of the package WITH change"; mv $DEMO /tmp/demo_$ID.go; go test -count=1 ./$PKG/ 2>&1 | tail -2; mv /tmp/demo_$ID.go $DEMO
cd /verif
git -C /repo apply $D/patch.diff || { echo "PATCH DOES NOT APPLY to /repo"; exit 1; }
echo "--- /verif check $PROP on the seeded tree"
./check $PROP "$@" 2>&1 | grep -v "^  " | tail -6
echo "exit=$?"
git -C /repo checkout -- .
git -C /repo status --short | head -3
