#!/usr/bin/env python3
"""Shared driver code for /verif checks: overlay construction, engine runs,
native replays, evidence files."""
import hashlib
import json
import os
import shutil
import subprocess
import sys
import tempfile
import time

VERIF = os.path.dirname(os.path.abspath(__file__))
REPO = os.environ.get("VERIF_REPO", "/repo")
MODULE = "github.com/anyproto/any-sync"
ENGINE = os.path.join(VERIF, "bin", "gosymex")
GO126 = "/opt/veriftools/go1.26.8/bin"


def go_env(native=False):
    env = dict(os.environ)
    env["GOFLAGS"] = "-mod=mod"
    env["GOPROXY"] = "off"
    if not native:
        env["GOSUMDB"] = "off"
        env["GOTOOLCHAIN"] = "local"
        env["PATH"] = GO126 + ":" + env.get("PATH", "")
    return env


_dir_cache = {}


def pkg_dir(import_path):
    """Directory of a (dependency) package as the repo's module graph resolves it."""
    if import_path in _dir_cache:
        return _dir_cache[import_path]
    out = subprocess.run(["go", "list", "-f", "{{.Dir}}", import_path], cwd=REPO, env=go_env(),
                         capture_output=True, text=True)
    if out.returncode != 0:
        raise RuntimeError("go list %s failed: %s" % (import_path, out.stderr))
    d = out.stdout.strip()
    _dir_cache[import_path] = d
    return d


def ensure_engine():
    src = os.path.join(VERIF, "engine")
    newest = max(os.path.getmtime(os.path.join(src, f)) for f in os.listdir(src))
    if not os.path.exists(ENGINE) or os.path.getmtime(ENGINE) < newest:
        subprocess.run([os.path.join(VERIF, "build.sh")], check=True)


def harness_meta(hname):
    with open(os.path.join(VERIF, "harness", hname, "harness.json")) as f:
        return json.load(f)


def overlay_map(hname, native=False, scratch=None):
    """virtual path -> real file for harness hname.  For native builds the
    verifrt twin is the model-reading implementation."""
    meta = harness_meta(hname)
    ov = {}
    rt = "verifrt_native.go" if native else "verifrt_sym.go"
    ov[os.path.join(REPO, "internal/verifrt/verifrt.go")] = os.path.join(VERIF, "rt", rt)
    hdir = os.path.join(VERIF, "harness", hname)
    for f in sorted(os.listdir(hdir)):
        if f.startswith("zz_") and f.endswith(".go"):
            if f.endswith("_test.go") and not native:
                continue
            ov[os.path.join(REPO, meta["pkg"], f)] = os.path.join(hdir, f)
    # shared harness files from other harness directories, same package
    for inc in meta.get("include", []):
        ov[os.path.join(REPO, meta["pkg"], os.path.basename(inc))] = os.path.join(VERIF, "harness", inc)
    # extra harness files placed in other repo packages: {"file": "pkgdir"}
    for f, pdir in meta.get("extra_files", {}).items():
        ov[os.path.join(REPO, pdir, os.path.basename(f))] = os.path.join(hdir, f)
    return ov


def modfile_for(hname):
    """Alternative go.mod (outside /repo) that replaces stubbed dependency
    modules by the directories under /verif/stubs; returns its path or None."""
    meta = harness_meta(hname)
    stubs = meta.get("stubs", [])
    if not stubs:
        return None
    d = os.path.join(VERIF, "out", "mod", "_".join(sorted(stubs)))
    os.makedirs(d, exist_ok=True)
    with open(os.path.join(REPO, "go.mod")) as fh:
        mod = fh.read()
    for st in sorted(stubs):
        with open(os.path.join(VERIF, "stubs", st, "stub.json")) as fh:
            sm = json.load(fh)
        mod += "\nreplace %s => %s\n" % (sm["import"], os.path.join(VERIF, "stubs", st))
    path = os.path.join(d, "go.mod")
    old = None
    if os.path.exists(path):
        with open(path) as fh:
            old = fh.read()
    if old != mod:
        with open(path, "w") as fh:
            fh.write(mod)
    shutil.copyfile(os.path.join(REPO, "go.sum"), os.path.join(d, "go.sum"))
    return path


def stub_contracts(hname):
    meta = harness_meta(hname)
    out = []
    for st in meta.get("stubs", []):
        with open(os.path.join(VERIF, "stubs", st, "stub.json")) as fh:
            out.append("stub %s: %s" % (st, json.load(fh)["contract"]))
    return out


def run_engine(hname, entry, params=None, flags=None, out=None, workers=None, quiet=False):
    ensure_engine()
    meta = harness_meta(hname)
    ov = overlay_map(hname)
    cmd = [ENGINE, "-repo", REPO, "-pkg", MODULE + "/" + meta["pkg"], "-entry", entry]
    mf = modfile_for(hname)
    if mf:
        cmd += ["-modfile", mf]
    for v, r in ov.items():
        cmd += ["-overlay", "%s=%s" % (v, r)]
    for k, v in (params or {}).items():
        cmd += ["-param", "%s=%d" % (k, v)]
    if workers:
        cmd += ["-workers", str(workers)]
    cmd += list(meta.get("flags", []))
    cmd += list(flags or [])
    if out is None:
        os.makedirs(os.path.join(VERIF, "out"), exist_ok=True)
        out = os.path.join(VERIF, "out", "%s.%s.json" % (hname, entry))
    cmd += ["-out", out]
    t0 = time.time()
    p = subprocess.run(cmd, capture_output=True, text=True, errors="replace", env=go_env())
    if not quiet:
        sys.stderr.write(p.stderr)
    if p.returncode != 0:
        raise RuntimeError("engine failed (%d) for %s/%s:\n%s" % (p.returncode, hname, entry, p.stderr[-4000:]))
    with open(out) as f:
        res = json.load(f)
    res["_wall"] = time.time() - t0
    return res


if __name__ == "__main__":
    # debug: vlib.py <harness> <entry> [k=v ...] [-- engine flags]
    args = sys.argv[1:]
    h, e = args[0], args[1]
    params = {}
    flags = []
    rest = args[2:]
    if "--" in rest:
        i = rest.index("--")
        flags = rest[i + 1:]
        rest = rest[:i]
    for a in rest:
        k, v = a.split("=")
        params[k] = int(v)
    r = run_engine(h, e, params, flags)
    print(json.dumps({k: r.get(k) for k in ("paths", "outcomes", "obligations", "reach_witnesses", "unsupported", "end_messages",
                                        "unknown_branches", "queries", "solver_time_s", "wall_s", "exhaustive")}, indent=1))
    for v in r["violations"]:
        print("VIOL", v["kind"], v["id"], v["msg"], "count=", v["count"], "model=", v["has_model"])
        print("   stack:", v["stack"][:4])
        print("   draws:", json.dumps(v["draws"]))
        if v.get("ufs"):
            print("   ufs:", json.dumps(v["ufs"]))
