package blake3
