package skiplist
