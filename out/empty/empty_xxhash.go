package xxhash
